#!/venv/bin/python
"""Regenerates MANIFEST.json from the table below (kept next to the checks so that both evolve together)."""
import json
import os

ROOT = os.path.dirname(os.path.dirname(os.path.abspath(__file__)))
E1 = 'explicit-state model checking of the implementation (delay-bounded / full schedule enumeration over N real Supvisors cores)'
E2 = 'bounded-exhaustive operation-sequence exploration of the real component against an independent reference model (product BFS with state merging)'

CHECKS = {
    'C01': dict(engine='E1-cluster', category='model_checking', technique=E1 + ' + fair-closure bounded liveness',
                ref='DESIGN.md section 4, C01',
                text='cold starts, late joins, crashes, restarts and isolations/rejoins are explored over the option sets; from '
                     'the explored states the fair closure must end with every connected group agreeing on one Master of the '
                     'group, seen RUNNING by all and by itself; single-fault histories are compared with an independent election '
                     'rule; automatic start/stop requests must come from an instance that regards itself as the Master',
                note='bounded as listed in the evidence (N<=3, D, T, F); the reference election rule is only applied to '
                     'single-fault histories from an agreed situation'),
    'C02': dict(engine='E1-cluster', category='model_checking', technique=E1, ref='DESIGN.md section 4, C02',
                text='every schedule of ticks, deliveries, crashes, isolations, restarts and restart/shutdown/end_sync '
                     'requests within the stated bounds (N<=3, D deviations, T ticks, F faults) is executed on the real '
                     'FSM code; every published state change is checked against an independent copy of the documented '
                     'graph, the Master conditions and the slave-after-Master order',
                note='bounded: cluster size, ticks, deviations and faults as listed in the evidence; FIFO channels; atomic '
                     'handlers; OS threads, sockets and supervisord are replaced by the World harness'),
    'C03': dict(engine='E1-cluster', category='model_checking', technique=E1 + ' + fair-closure bounded liveness (STOP strategy)',
                ref='DESIGN.md section 4, C03',
                text='automatic distribution and start / restart application requests are explored over tiny rules files with '
                     'every process behaviour (run, backoff, fatal, early exit, never answering, host lost) interleaved with '
                     'ticks and deliveries; every emitted start request is judged against ground-truth process states, the '
                     'sender\'s earlier requests and the starting failure strategy; a fair closure checks that an application whose '
                     'required program failed under STOP ends stopped',
                note='2-3 programs per application, 2 applications, N=2 (3 in the thorough tier), bounds in the evidence'),
    'C04': dict(engine='E1-cluster', category='model_checking', technique=E1, ref='DESIGN.md section 4, C04',
                text='application / process starts are explored on 2-3 instances over 1-2 nodes (loads up to the cap, program '
                     'knowledge, disabled programs, identifiers lists / aliases / nicks, restricted distributions, concurrent '
                     'starts, re-identified instance); every emitted start request and every "No resource available" is judged '
                     'against an independent eligibility and load computation',
                note='pending load is bounded from below for requests and from above for the no-resource clause so that the '
                     'oracle cannot raise a false alarm; sign rules (#, @) belong to C18'),
    'C05': dict(engine='E1-cluster', category='model_checking', technique=E1 + ' + fair-closure bounded liveness',
                ref='DESIGN.md section 4, C05',
                text='duplicates created by direct Supervisor starts (managed / unmanaged, 1-2 conflicts, 2-3 copies) are explored '
                     'for the six strategies and the running failure strategies of the program; every stop request is compared '
                     'with the reference computed from the true start rounds, the Master must enter CONCILIATION by its next '
                     'evaluation, and the closure must end conflict-free in OPERATION (USER: CONCILIATION while a duplicate exists) '
                     'with the placement the strategy prescribes',
                note='copies at least two tick rounds apart; final placement not judged when an election aborted the jobs'),
    'C06': dict(engine='E1-cluster', category='model_checking', technique=E2 + '; ' + E1,
                ref='DESIGN.md section 4, C06',
                text='the real RunningFailureHandler is explored as a product with the precedence lattice over every sequence of '
                     'add_job / add_default_job / trigger_jobs / abort with busy / idle and stopped / running applications; end to '
                     'end, the loss of a non-Master, of the Master, process crashes and a loss during a start sequence are explored: '
                     'only the Master acts, nothing is done twice, and the closure ends with the placement of the strategy',
                note='handler: 2 applications x 2 processes, depth 4 (quick) / 6; end to end: N=3, one application of two programs'),
    'C07': dict(engine='E1-cluster', category='model_checking', technique=E1, ref='DESIGN.md section 4, C07',
                text='every schedule of ticks, deliveries, crashes, restarts (also quicker than detection), isolations, '
                     'rejoins and directed stalls within the bounds is executed on the real cores; a monitor per (observer, '
                     'peer) in observer-local ticks judges accuracy, completeness, invalidation, FATAL marking of lost '
                     'processes, the fencing rule and every instance-state edge against its own copy of the graph',
                note='accuracy judged only while the trace satisfies the premise of the statement; N<=3, inactivity_ticks in '
                     '{2,3}, bounds in the evidence'),
    'C16': dict(engine='E1-cluster', category='model_checking', technique=E1, ref='DESIGN.md section 4, C16',
                text='the E1 membership explorations (incl. slow handshakes and requests on the wire) and the job explorations of '
                     'C10 with their worst-case closures run with the internal-error monitor (CRIT record with traceback, '
                     'non-RPCError exception from an XML-RPC method, exception escaping a proxy thread, un-marshallable result); '
                     'plus the hostile product (states of scripted real histories x forged messages / Supervisor-side events, RPC '
                     'matrix with hostile parameters, heterogeneous instances)',
                note='bounded as the underlying explorations'),
    'C08': dict(engine='E1-cluster', category='model_checking', technique=E1 + ' + fair-closure bounded liveness',
                ref='DESIGN.md section 4, C08',
                text='fault prefixes (crash, restart, isolate/rejoin, stall/resume) are explored in every Supvisors state within '
                     'the deviation bound; from the explored states a deterministic fair closure of K rounds must bring every '
                     'member of every connected group back to OPERATION with no job pending',
                note='bounded liveness: K=12 rounds (36 before a report); quick tier evaluates the closure on every state '
                     'reached by a deviation/fault/request and on terminal states, thorough on every state'),
    'C09': dict(engine='E1-cluster', category='model_checking', technique=E1 + ' + fair-closure bounded liveness',
                ref='DESIGN.md section 4, C09',
                text='stop_application / stop_process / restart_application and supvisors.restart / shutdown on Master or slave are '
                     'explored over rules with stop sequences at both levels, processes stopping promptly / slowly / never, loss of '
                     'a non-Master; every stop request and final Supervisor order is judged against true process states and the '
                     'sender\'s view; the closure checks exactly one order per live Supervisor and FINAL everywhere',
                note='N=2 (3 for the loss scenario); branches on which the SHUTDOWN-strategy finding of C02 fires are cut'),
    'C10': dict(engine='E1-cluster', category='model_checking', technique=E1 + ' + worst-case closure bounded liveness',
                ref='DESIGN.md section 4, C10',
                text='start and stop jobs are explored with processes that never spawn, stay STARTING / STOPPING, back off '
                     'repeatedly, with delayed events and lost targets, for startsecs / stopwaitsecs in {1,6,11}; from every '
                     'explored state a closure in which no process event is produced any more must end every job within '
                     'B = (2 + ceil(secs/5) + inactivity_ticks + 2) rounds per sequence step, with FATAL / STOPPED and a reason '
                     'shown on every live instance',
                note='the wait_exit program that never exits (documented exception) is not exercised'),
    'C11': dict(engine='E2-seq', category='exploration', technique=E2, ref='DESIGN.md section 4, C11',
                text='every sequence (to the depth bound, or to the fixpoint of the product state space) of snapshots, '
                     'events, losses, removals and forced states over 2-3 instances is applied to the real ProcessStatus '
                     'and to an independent reference model of the statement; identifiers, conflict flag, displayed state '
                     'and expected_exit are compared after every step',
                note='alphabet: 8 states x {snapshot, event}, loss, removal, forced FATAL/STOPPED x {targeted, untargeted} x '
                     '{older, equal, newer}; removal of a running entry and the cases the statement leaves open are not judged'),
    'C15': dict(engine='E2-seq', category='exploration', technique='bounded-exhaustive input enumeration of the real '
                'ApplicationStatus against an independent reference definition (all state vectors of 1-3 processes, all '
                'formulas up to 2-3 operators, hostile list with side-effect interception)',
                ref='DESIGN.md section 4, C15',
                text='the state priority rule, the required-based status and the formula evaluator are compared with a '
                     'reference written from the statement on every generated input; totality and absence of side effects '
                     'are checked on hostile formulas with eval/exec/open/compile/print/os.system wrapped',
                note='formula grammar bounded by operator count and 7 leaves; minor failure under a formula is not defined '
                     'by the statement and not compared'),
    'C12': dict(engine='E1-cluster', category='model_checking', technique=E1, ref='DESIGN.md section 4, C12',
                text='process activity (direct Supervisor starts / stops, exits, backoffs, starts by Supvisors) is explored during '
                     'cold starts, in OPERATION, with a late join, crashes, restarts and a healed partition; at every quiescent '
                     'state the process views of all live connected instances are compared pairwise and with the true Supervisor '
                     'process tables',
                note='signatures carry an event-during-handshake qualifier so that the known handshake-window finding does not '
                     'mask losses in steady state; which stopped-like state is shown is not compared'),
    'C13': dict(engine='E1-cluster', category='model_checking', technique='explicit-state exploration of the real cores (slow '
                'handshakes, requests on the wire, partitions, restarts, mismatching options) with an isolation monitor, plus '
                'bounded-exhaustive hostile message sequences injected into the real listener of instances brought to isolation by '
                'real histories; non-interference on the full observable snapshot',
                ref='DESIGN.md section 4, C13',
                text='E1: once ISOLATED a status never changes, no XML-RPC leaves for an isolated peer, a peer that has held the local '
                     'instance ISOLATED since before the current CHECKING period or whose strategies differ is never admitted, on '
                     'every explored history (late reply of the last XML-RPC of a handshake, TICK on the wire, partition + healing, '
                     'crash + restart, cold starts with differing options); hostile part: isolation is reached by silence under auto_fence, by the NOT_AUTHORIZED answer (reciprocity) and by each strategy '
                     'option differing; every sequence of forged publications / notifications up to length 2 (3 with VERIF_DEEP=1) from the '
                     'isolated peer must leave the observable snapshot unchanged and cause no traffic towards it; process events '
                     'from STOPPED / CHECKING peers must be ignored; ISOLATED must survive a fair closure',
                note='alphabet: 11 message kinds x timestamps x 4 claimed origins; PROCESS_ADDED from a not-yet-admitted peer is not in '
                     'the statement and not judged'),
    'C17': dict(engine='E2-seq', category='exploration', technique='complete finite matrix (method x state x parameters) on live '
                'instances brought to each Supvisors state by a real history, against the verifier\'s own gating table',
                ref='DESIGN.md section 4, C17',
                text='every public XML-RPC x every Supvisors state (Master and slave; hand-made quiescent states plus one snapshot '
                     'per (local state, role, believed Master state) class of an exhaustive 3-instance membership exploration) x '
                     'parameter grid: expected fault or acceptance '
                     'from an independent table; rejected calls must emit nothing and leave every observable snapshot and the job '
                     'state unchanged',
                note='status queries in FINAL and psutil-dependent methods are outside the matrix'),
    'C14': dict(engine='E2-seq', category='exploration', technique='bounded-exhaustive input enumeration on real Context '
                'objects of a live (handshaken) cluster against a set-valued reference model',
                ref='DESIGN.md section 4, C14',
                text='the real get_supvisors_instance is evaluated on the complete product of load tables, ordered candidate '
                     'subsets, pending-request maps, loads, strategies and requesters of a 4-instance / 2-node cluster (also '
                     'after a re-identification), and real SINGLE_INSTANCE / SINGLE_NODE / ALL_INSTANCES application starts are '
                     'observed on the wire and judged request by request (candidates in declared order, load table of that time, '
                     'pending requests); every answer must belong to the reference set',
                note='loads in {0,30,60,90} per instance, expected_loading in {0,40,70,100}; ties beyond the documented '
                     'tie-break are all acceptable'),
    'C18': dict(engine='E2-seq', category='exploration', technique='bounded-exhaustive input enumeration (generated rules documents on '
                'both parser paths, option alphabets and complete product of the interacting options) against an independent '
                'reference resolver',
                ref='DESIGN.md section 4, C18',
                text='every generated document x lookup name is resolved by the real Parser (lxml + XSD and ElementTree) and by a '
                     'reference resolver written from the documentation (exact > longest pattern, model depth, element over model, '
                     'domains, dependencies, aliases, sign spreading); every option alphabet value and every combination of the '
                     'interacting options, in both evaluation orders within one process, against a reference table',
                note='patterns that are not regular expressions: only "no exception escapes"; pattern ties: all acceptable'),
    'C19': dict(engine='E2-seq', category='exploration', technique='bounded-exhaustive relational check: two real worlds rebuilt '
                'from the same history (prediction vs real start), full observable snapshots compared before / after',
                ref='DESIGN.md section 4, C19',
                text='for every (load table, distribution rule, application shape, strategy, requester, repetition count) the '
                     'prediction must send nothing and leave every status payload, the rules and the Starter / Stopper / handler '
                     'state identical, and must equal the placement requested by a real start on a cloned cluster in which every '
                     'process starts normally',
                note='3 instances on 2 nodes, loads in {0,30,60}, 4 application shapes, fresh or with programs EXITED by an earlier run'),
    'C20': dict(engine='E2-seq', category='exploration', technique=E2, ref='DESIGN.md section 4, C20',
                text='every stream of samples up to the depth bound over the alphabet (time steps, key sets changing, counters '
                     'wrapping together or one at a time, pid changes, unknown instance; psutil answers of the real process collector: sample / OSError / dead) is pushed into the real compilers; depth, alignment, period gate, '
                     'value ranges and integrated values are checked after every push against a reference model',
                note='states merged on an abstract key (lengths, key sets, capped time since the reference sample, order '
                     'relations); the number of CPU cores is constant within a stream'),
}

ENGINES = [
    {'name': 'E1-cluster', 'path': 'mc/explorer.py',
     'kind_free_text': 'explicit-state model checker whose transition function is the implementation: N real Supvisors '
                       'cores in one process (mc/world.py), FULL or delay-bounded schedules, canonical state hashing, '
                       'fair-closure bounded liveness, from-scratch replay validation'},
    {'name': 'E2-seq', 'path': 'mc/seq.py',
     'kind_free_text': 'bounded-exhaustive operation-sequence explorer: BFS over (real object, reference model) pairs'},
]

ALL = [f'C{n:02d}' for n in range(1, 21)]


def main():
    checks = []
    for pid in ALL:
        c = CHECKS.get(pid)
        if not c:
            continue
        checks.append({
            'property_id': pid,
            'quick_cmd': f'./check {pid} --tier quick',
            'thorough_cmd': f'./check {pid} --tier thorough',
            'evidence_file': f'evidence/{pid}.json',
            'replay_cmd_template': f'./check {pid} --replay {{path}}',
            'engine': c['engine'],
            'level_claimed': {'category': c['category'], 'text': c['text'], 'design_ref': c['ref']},
            'level_note': c['note'],
            'technique': c['technique'],
        })
    engines = []
    for e in ENGINES:
        e = dict(e)
        e['serves_properties'] = [p for p in ALL if p in CHECKS and CHECKS[p]['engine'] == e['name']]
        engines.append(e)
    na = [{'property_id': p, 'reason': 'not claimed'}
          for p in ALL if p not in CHECKS]
    manifest = {
        'version': 1,
        'setup_cmd': "/venv/bin/python -c \"import supvisors, supervisor, lxml, jsonschema; print('toolchain ok')\"",
        'hooks': {
            'guard': 'SUPVISORS_VERIF',
            'enable': 'no source hooks: every seam (proxy class, module attributes, constructor arguments) is reachable '
                      'from outside; checks import supvisors from /repo (editable install), so they always run the '
                      'current working tree',
            'baseline_off_cmd': 'cd /repo && /venv/bin/python -m pytest -ra -q -p no:cacheprovider --timeout=900 '
                                '--continue-on-collection-errors',
            'source_commits': [],
            'add_only': True},
        'engines': engines,
        'checks': checks,
        'not_applicable': na,
        'notes': 'Model-checking family only. Known findings: known_findings.json. Seeded changes: seeded/ (60, regression in seeded/REGRESSION.txt). Thorough tier: see DESIGN.md 10.6 (deeper than quick for 14 checks, equal for C09, C10, C12, C13, C16, C17; unvalidated deeper variants are exploratory, VERIF_DEEP=1).',
    }
    with open(os.path.join(ROOT, 'MANIFEST.json'), 'w') as f:
        json.dump(manifest, f, indent=1)
    import jsonschema
    jsonschema.validate(manifest, json.load(open('/root/.vp/MANIFEST.schema.json')))
    print('MANIFEST.json written:', len(checks), 'checks,', len(na), 'not applicable')


if __name__ == '__main__':
    main()
