#!/bin/sh
# Usage: tools/regress_seeds.sh [seed dir names...]   (default: all of seeded/)
# Applies every stored seeded change to /repo in turn, runs the quick check(s) recorded as catching it
# (meta.json caught_by) and reports whether a VIOLATION line is printed.  /repo is always restored.
cd /verif || exit 2
[ $# -gt 0 ] || set -- $(ls seeded)
for s in "$@"; do
  checks=$(python3 -c "import json;m=json.load(open('seeded/$s/meta.json'));print('' if m.get('obsolete') else ' '.join(list(m['caught_by'])[:1]))")
  if [ -z "$checks" ]; then echo "$s: recorded as not caught / obsolete"; continue; fi
  out=$(timeout 1800 tools/try_seed.sh /verif/seeded/$s/patch.diff $checks 2>&1)
  n=$(echo "$out" | grep -c "^VIOLATION")
  echo "$s -> $checks: $n violation line(s) $( [ "$n" -gt 0 ] && echo CAUGHT || echo MISSED )"
done
