#!/usr/bin/env python3
"""Lists the signals of OTHER properties' monitors that cut branches during the explorations of a check
(evidence field branches_cut_on_other_properties) and that are neither an open known finding nor a signature the
owning check is known to report.  Such a signal is a violation of the other property that nobody reports: either its
owner needs a configuration that reaches it, or the monitor raises a false alarm in worlds it was not designed for
(both happened: C07:lost-process-listed was a genuine defect met only by C05 / C09 worlds; C04:double-start was a
monitor bug).  Run after a full quick run; exit 1 if something is left to review."""
import glob
import json
import os
import sys

HERE = os.path.dirname(os.path.dirname(os.path.abspath(__file__)))
known = {f['signature'] for f in json.load(open(os.path.join(HERE, 'known_findings.json')))['findings']}
# reviewed: signals that are legitimate in the worlds where they fire and are reported by their owner elsewhere
REVIEWED = {
}
left = {}
for path in sorted(glob.glob(os.path.join(HERE, 'evidence', 'C*.json'))):
    ev = json.load(open(path))
    cut = ev.get('coverage', {}).get('branches_cut_on_other_properties') or {}
    for sig, n in cut.items():
        if sig in known or sig in REVIEWED or sig.startswith('C16:'):
            continue    # C16 signals are internal errors: reported by C16 over the same worlds
        left.setdefault(sig, []).append((ev['property_id'], n))
for sig, where in sorted(left.items()):
    print(f'UNOWNED {sig}: ' + ', '.join(f'{p} x{n}' for p, n in where))
print(f'{len(left)} unowned signal(s)')
sys.exit(1 if left else 0)
