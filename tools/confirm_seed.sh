#!/bin/sh
# Usage: tools/confirm_seed.sh <id> [<worktree>]
# Confirms a seeded change IN ITS SCRATCH WORKTREE (never in /repo): the change applies to the pristine tree, the
# demonstration fails with it and passes without it, and the project's pinned test suite passes with it
# (same pass/fail set as the baseline, run inside a private network namespace: 1078 passed, the 5 tests that always
# fail in this sandbox are the only failures).
# Writes <worktree>/confirm.log and prints a one-line verdict.
ID="$1"; WT="${2:-/tmp/wt/$ID}"
cd "$WT" || exit 2
LOG="$WT/confirm.log"; : > "$LOG"
DEMO=$(ls demo_* 2>/dev/null | head -1)
[ -f mutant.diff ] && [ -n "$DEMO" ] || { echo "$ID: missing mutant.diff or demo"; exit 2; }
run_demo() { case "$DEMO" in *test*) /venv/bin/python -m pytest -q -p no:cacheprovider "$DEMO";; *) /venv/bin/python "$DEMO";; esac; }
git checkout -q -- supvisors
run_demo >> "$LOG" 2>&1; RC_WITHOUT=$?
git apply mutant.diff || { echo "$ID: patch does not apply"; exit 2; }
run_demo >> "$LOG" 2>&1; RC_WITH=$?
echo "demo without change rc=$RC_WITHOUT, with change rc=$RC_WITH" >> "$LOG"
unshare -rn sh -c "ip link set lo up 2>/dev/null; ip link set lo multicast on; ip route add 224.0.0.0/4 dev lo; cd $WT && /venv/bin/python -m pytest -q -p no:cacheprovider --timeout=900 --continue-on-collection-errors" > "$WT/confirm.pytest.log" 2>&1
SUITE=$(tail -1 "$WT/confirm.pytest.log")
echo "suite with change: $SUITE" >> "$LOG"
echo "$ID: demo without=$RC_WITHOUT with=$RC_WITH suite: $SUITE"
