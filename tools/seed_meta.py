#!/usr/bin/env python3
"""Writes seeded/<id>/meta.json from the table below (one seeded change per property, produced by an independent
sub-agent that saw only the text of the property and a scratch worktree; never committed to /repo)."""
import json
import os

HERE = os.path.dirname(os.path.dirname(os.path.abspath(__file__)))
CONFIRM = ('tools/confirm_seed.sh <id>: in the scratch worktree, demo on the pristine tree (rc 0), demo with the change '
           '(rc 1), full pinned suite with the change inside a private network namespace (5 failed = the 5 tests that '
           'always fail in this sandbox, 1078 passed); then tools/try_seed.sh seeded/<id>/patch.diff <checks> '
           '(git apply on /repo, quick checks, git checkout -- .)')

T = {
 'C01': dict(file='supvisors/statemodes.py', change='the Master is only dropped when it is seen STOPPED (not when it leaves RUNNING)',
             needs='a Master that is lost under auto_fence (FAILED -> ISOLATED, never STOPPED) or still FAILED when the survivors elect',
             caught_by={'C01': 'C01:master-outside-group'}, strengthened=None),
 'C02': dict(file='supvisors/statemachine.py', change='slave may go from ELECTION straight to OPERATION on the Master state',
             needs='a slave still in ELECTION when the Master publishes OPERATION (message order between two instances)',
             caught_by={'C02': 'C02:edge:ELECTION->OPERATION, C02:slave-before-master:*'}, strengthened=None),
 'C03': dict(file='supvisors/commander.py', change='starting failure strategy only applied to a lost pending job if its process was already running there',
             needs='the host of a required process is lost while its start job is pending and later sequences are planned',
             caught_by={'C03': 'C03:failure-strategy:ABORT / STOP'},
             strengthened='C03: configurations where the host of a pending job is lost; a job whose host is lost and invalidated counts as failed'),
 'C04': dict(file='supvisors/commander.py', change='pending load requests of a node overwritten instead of summed (several instances per node)',
             needs='two pending requests on different instances of one node and a third process competing for the room left on that node',
             caught_by={'C04': 'C04:overload'}, strengthened=None),
 'C05': dict(file='supvisors/commander.py', change='stop commands added to an existing stop job de-duplicated by process name only',
             needs='two simultaneous conflicts in one application with a strategy stopping several copies',
             caught_by={'C05': 'C05:final:STOP, C05:final:RUNNING_FAILURE:CONTINUE'},
             strengthened='C05: two-conflict configurations; the final-placement oracle was vacuous (the re-election flag was set '
                          'by the warm-up) and is now effective'),
 'C06': dict(file='supvisors/statemachine.py', change='trigger_jobs called after each lost process instead of once',
             needs='two processes of one application with different strategies lost together with their instance',
             caught_by={'C06': 'C06:start-twice'},
             strengthened='C06: mixed-strategy / promotion configurations with a start counter; the iteration order of sets of '
                          'status objects is now owned by the harness (both orders explored) - the change made the outcome '
                          'depend on it and the run ended in a replay-divergence harness error before'),
 'C07': dict(file='supvisors/instancestatus.py', change='transition CHECKED -> FAILED removed from the instance state graph',
             needs='a peer that dies while CHECKED (admitted, not yet RUNNING) during a slow start',
             caught_by={'C07': 'C07:not-detected', 'C16': 'C16:InvalidTransition@instancestatus.py:state'},
             strengthened='C07: completeness clause extended to CHECKED peers; slow-start late-join configuration'),
 'C08': dict(file='supvisors/statemachine.py', change='working states re-synchronise on lost processes instead of lost instances',
             needs='an instance lost (or not) while no process / some process runs on it, during DISTRIBUTION / OPERATION', caught_by={'C08': 'C08:parked:master=DISTRIBUTION'},
             strengthened=None),
 'C09': dict(file='supvisors/commander.py', change='job on a lost instance only dropped if its process was running there',
             needs='target lost between the request and the acknowledgement (stop or start)',
             caught_by={'C09': 'C09:orders:0, C09:stalled', 'C10': 'C10:jobs-pending'},
             strengthened='C09: instances lost while stopping, non-ending closure; C10: see C10'),
 'C10': dict(file='supvisors/commander.py', change='on_instances_invalidation iterates on the list it mutates',
             needs='two pending commands of one application on the instance that is lost',
             caught_by={'C10': 'C10:jobs-pending'},
             strengthened='C10: several commands pending on the lost target; a known finding met by the closure probe no longer '
                          'cuts the branch (it hid everything behind the first state); the closure reports every signature'),
 'C11': dict(file='supvisors/process.py', change='update_status: "if self.stopped()" became "if not self.running()"',
             needs='a running report from another instance while the synthetic state is STOPPING',
             caught_by={'C11': 'C11:identifiers:*, C11:conflict:*'}, strengthened=None),
 'C12': dict(file='supvisors/strategy.py', change='SENICIDE conciliation mutates the live running_identifiers set',
             needs='a duplicate conciliated with SENICIDE; the Master view then differs from everybody else',
             caught_by={'C12': 'C12:view-vs-truth:peer', 'C05': 'C05:stop-non-conflicting'},
             strengthened='C12: configurations with a duplicate conciliated by each automatic strategy'),
 'C13': dict(file='supvisors/internal_com/supervisorproxy.py', change='AUTHORIZATION stamped with the time of the notification instead of the beginning of the handshake',
             needs='a slow handshake overlapping a FAILED -> STOPPED -> CHECKING cycle of the peer, which has fenced the local instance meanwhile',
             caught_by={'C13': 'C13:admitted-despite-isolation'},
             strengthened='world: slow exchanges (hang / unhang: late reply of the last XML-RPC of a handshake) and requests on '
                          'the wire (lag / land); C13: explicit-state part with the IsolationMonitor'),
 'C14': dict(file='supvisors/commander.py', change='SINGLE_NODE candidates in cluster order instead of declared order',
             needs='SINGLE_NODE + CONFIG with identifiers declared in another order than supvisors_list, several instances per node',
             caught_by={'C14': 'C14:single-node:process-choice:CONFIG'},
             strengthened='C14: per-request oracle for whole-application starts, rules declaring the instances in another order, ALL_INSTANCES starts'),
 'C15': dict(file='supvisors/application.py', change='update_state reads the real state instead of the displayed one for STOPPING',
             needs='a forced STOPPED state over a real STOPPING state (stop request timed out)',
             caught_by={'C15': 'C15:state:*-expected, C15:major:False-expected'}, strengthened=None),
 'C16': dict(file='supvisors/commander.py', change='failed_processes.remove without membership guard',
             needs='a command pending on an instance that goes silent before the process is listed as running there',
             caught_by={'C16': 'C16:KeyError@commander.py:on_instances_invalidation'}, strengthened=None),
 'C17': dict(file='supvisors/rpcinterface.py', change='state gate reads the last published Master state when a Master is known',
             needs='a non-Master instance whose own FSM state differs from the last state published by its Master',
             caught_by={'C17': 'C17:gate-open:<method>:ELECTION (22 methods)'},
             strengthened='C17: the matrix is applied to one snapshot per (local state, role, believed Master state) class of an '
                          'exhaustive membership exploration instead of hand-made quiescent states'),
 'C18': dict(file='supvisors/sparser.py', change='best pattern chosen by the end position of the match instead of its length',
             needs='two overlapping unanchored patterns matching at different offsets',
             caught_by={'C18': 'C18:application-lookup:*, C18:program-lookup:*'}, strengthened=None),
 'C19': dict(file='supvisors/commander.py', change='model counts EXITED / FATAL processes as running in get_load_requests',
             needs='a wait_exit program in an earlier sub-sequence, or programs EXITED by an earlier run, with tight loads',
             caught_by={'C19': 'C19:prediction-mismatch:*'},
             strengthened='C19: application shape with a leading wait_exit program; histories where programs are EXITED'),
 'C20': dict(file='supvisors/statscompiler.py', change='counter-wrap guard compares the pair lexicographically',
             needs='one counter of an interface wraps while the other one increases',
             caught_by={'C20': 'C20:host-io-range, C20:host-range:net_io / disk_io'},
             strengthened='C20: operations wrapping a single counter of the pair'),
}

for pid, m in T.items():
    d = os.path.join(HERE, 'seeded', pid)
    demo = [f for f in os.listdir(d) if f.startswith('demo_')]
    meta = {'property': pid, 'origin': 'independent sub-agent given only the text of the property and a scratch worktree',
            'file_changed': m['file'], 'change': m['change'], 'needs_to_manifest': m['needs'],
            'patch': 'patch.diff', 'demonstration': demo[0] if demo else None,
            'agent_notes': 'NOTES.md', 'confirmation_log': 'confirm.log', 'what_was_run': CONFIRM,
            'compiles_and_passes_existing_tests': True, 'demonstration_fails_with_and_passes_without': True,
            'caught_by': m['caught_by'], 'caught_before_strengthening': m['strengthened'] is None,
            'strengthening': m['strengthened']}
    with open(os.path.join(d, 'meta.json'), 'w') as f:
        json.dump(meta, f, indent=1)
print('wrote', len(T))
