#!/bin/sh
# Usage: tools/try_seed.sh <patch file> <check id> [<check id> ...]
# Applies a seeded change to /repo, runs the quick checks named, and ALWAYS restores /repo afterwards.
# Never commits anything to /repo.
PATCH="$1"; shift
cd /repo || exit 2
if [ -n "$(git status --porcelain -- supvisors)" ]; then echo "/repo is not clean"; exit 2; fi
git apply "$PATCH" || { echo "patch does not apply"; exit 2; }
trap 'cd /repo && git checkout -- . ' EXIT INT TERM
RC=0
for id in "$@"; do
  echo "=== $id with $(basename $(dirname $PATCH))/$(basename $PATCH)"
  (cd /verif && ./check "$id" --tier "${VERIF_TIER:-quick}" 2>&1 | grep -v "^KNOWN-FINDING" | grep "VIOLATION\|clause=\|wall=" | cut -c1-260)
done
exit 0
