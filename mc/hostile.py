"""Hostile message alphabet: forged publications / notifications handed to SupervisorListener.on_remote_event
(any XML-RPC client can call supervisor.sendRemoteCommEvent).  Shared by C13 and C16."""
import time

from supvisors.ttypes import SUPVISORS_PUBLICATION, SUPVISORS_NOTIFICATION

PUB = {'TICK': 0, 'PROCESS': 1, 'PROCESS_ADDED': 2, 'PROCESS_REMOVED': 3, 'PROCESS_DISABILITY': 4, 'STATE': 7}
NOTIF = {'IDENTIFICATION': 0, 'AUTHORIZATION': 1, 'STATE': 2, 'ALL_INFO': 3, 'DISCOVERY': 4, 'INSTANCE_FAILURE': 5}


def origins(w, peer):
    """Claimed origin triples of the peer: correct / wrong port / wrong address / nick only."""
    s = w.sups[peer]
    ident = w.idents[peer]
    nick = w.scenario['nicks'][peer] or ident
    ip, port = ident.rsplit(':', 1)
    return {'correct': [ident, nick, [ip, int(port)]],
            'wrong-port': [ident, nick, [ip, int(port) + 7]],
            'wrong-address': [ident, nick, ['10.9.9.9', int(port)]],
            'nick-only': [nick, nick, [ip, int(port)]]}


def process_info(w, peer, ns, state, ts):
    g, p = ns.split(':')
    return {'name': p, 'group': g, 'state': state, 'statename': 'X', 'start': 1700000000, 'stop': 0, 'now': 1700000100,
            'pid': 4242, 'description': 'forged', 'spawnerr': '', 'expected': True, 'now_monotonic': ts,
            'start_monotonic': ts - 1.0, 'stop_monotonic': 0.0, 'extra_args': '', 'startsecs': 1, 'stopwaitsecs': 1,
            'process_index': 0, 'program_name': p, 'disabled': False, 'has_stdout': False, 'has_stderr': False}


def messages(w, receiver, peer, ns='A:a', timestamps=('fresh', 'stale', 'checking'), origin_kinds=('correct',)):
    """[(label, etype, message)] forged as coming from `peer`, addressed to `receiver`."""
    r = w.sups[receiver]
    ident = w.idents[peer]
    nick = w.scenario['nicks'][peer] or ident
    st = r.context.instances[ident]
    now = w.clock_t
    ts_of = {'fresh': now + 1.0, 'stale': 1.0, 'checking': st.checking_time, 'just-after-checking': st.checking_time + 1e-7}
    peer_sup = w.sups[peer]
    try:
        net = peer_sup.mapper.instances[ident].serial()
    except Exception:
        net = None
    sm = dict(peer_sup.state_modes.local_state_modes.serial())
    out = []
    og = origins(w, peer)
    for ok in origin_kinds:
        o = og[ok]
        g, p = ns.split(':')
        for tsn in timestamps:
            ts = ts_of[tsn]
            ev = {'identifier': ident, 'nick_identifier': nick, 'name': p, 'group': g, 'state': 20, 'now': 1700000100.0,
                  'now_monotonic': ts, 'pid': 4242, 'expected': True, 'spawnerr': '', 'extra_args': '', 'disabled': False}
            out.append((f'pub:PROCESS:{tsn}:{ok}', SUPVISORS_PUBLICATION, [o, [PUB['PROCESS'], ev]]))
            forced = dict(ev, state=200, forced=True, spawnerr='forged', identifier=w.idents[receiver])
            out.append((f'pub:PROCESS-forced:{tsn}:{ok}', SUPVISORS_PUBLICATION, [o, [PUB['PROCESS'], forced]]))
            out.append((f'notif:AUTHORIZATION-1:{tsn}:{ok}', SUPVISORS_NOTIFICATION,
                        [o, [NOTIF['AUTHORIZATION'], {'authorization': 1, 'now_monotonic': ts}]]))
            if net is not None:
                idn = dict(net, now_monotonic=ts)
                out.append((f'notif:IDENTIFICATION:{tsn}:{ok}', SUPVISORS_NOTIFICATION, [o, [NOTIF['IDENTIFICATION'], idn]]))
        tick = {'when': 1700000100, 'when_monotonic': now + 1.0, 'sequence_counter': st.times.remote_sequence_counter + 1}
        out.append((f'pub:TICK:{ok}', SUPVISORS_PUBLICATION, [o, [PUB['TICK'], tick]]))
        out.append((f'pub:TICK-restart:{ok}', SUPVISORS_PUBLICATION, [o, [PUB['TICK'], dict(tick, sequence_counter=0)]]))
        out.append((f'pub:PROCESS_ADDED:{ok}', SUPVISORS_PUBLICATION,
                    [o, [PUB['PROCESS_ADDED'], process_info(w, peer, 'A:new', 0, now)]]))
        out.append((f'pub:PROCESS_REMOVED:{ok}', SUPVISORS_PUBLICATION, [o, [PUB['PROCESS_REMOVED'], {'name': p, 'group': g}]]))
        out.append((f'pub:GROUP_REMOVED:{ok}', SUPVISORS_PUBLICATION, [o, [PUB['PROCESS_REMOVED'], {'name': '*', 'group': g}]]))
        out.append((f'pub:PROCESS_DISABILITY:{ok}', SUPVISORS_PUBLICATION,
                    [o, [PUB['PROCESS_DISABILITY'], dict(process_info(w, peer, ns, 0, now), disabled=True)]]))
        hostile_sm = dict(sm, master_identifier=ident, fsm_statecode=4, fsm_statename='OPERATION',
                          instance_states={i: 'RUNNING' for i in w.idents})
        out.append((f'pub:STATE:{ok}', SUPVISORS_PUBLICATION, [o, [PUB['STATE'], hostile_sm]]))
        out.append((f'notif:STATE:{ok}', SUPVISORS_NOTIFICATION, [o, [NOTIF['STATE'], hostile_sm]]))
        for code in (0, 2, 3, 9):
            out.append((f'notif:AUTHORIZATION-{code}:{ok}', SUPVISORS_NOTIFICATION,
                        [o, [NOTIF['AUTHORIZATION'], {'authorization': code, 'now_monotonic': now + 1.0}]]))
        out.append((f'notif:ALL_INFO:{ok}', SUPVISORS_NOTIFICATION,
                    [o, [NOTIF['ALL_INFO'], [process_info(w, peer, ns, 20, now)]]]))
        out.append((f'notif:ALL_INFO-none:{ok}', SUPVISORS_NOTIFICATION, [o, [NOTIF['ALL_INFO'], None]]))
        out.append((f'notif:INSTANCE_FAILURE:{ok}', SUPVISORS_NOTIFICATION, [o, [NOTIF['INSTANCE_FAILURE'], None]]))
        out.append((f'notif:IDENTIFICATION-none:{ok}', SUPVISORS_NOTIFICATION, [o, [NOTIF['IDENTIFICATION'], None]]))
    # discovery datagrams of the peer (turned into DISCOVERY notifications by the receiving side): unchanged identity,
    # same address under another Supervisor identifier (restarted with supervisord -i), same nick at another address
    ip, port = ident.rsplit(':', 1)
    for label, o in (('same', [ident, nick, [ip, int(port)]]), ('renamed', [ident, 'renamed', [ip, int(port)]]),
                     ('moved', [f'{ip}:{int(port) + 7}', nick, [ip, int(port) + 7]])):
        out.append((f'notif:DISCOVERY:{label}', SUPVISORS_NOTIFICATION, [o, [NOTIF['DISCOVERY'], None]]))
    return out
