"""Reference model of placement (C14 / C04), written from the statements.  No import of supvisors.

Everything is expressed on plain data:
  inst_load[i]  : expected_loading of what runs on instance i (requester's view)
  req[i]        : load of the starts already requested on instance i and not yet acknowledged
  node_of[i]    : node of instance i
The functions return the *set* of acceptable answers: ties beyond the documented tie-break are all accepted.
"""
import collections

STRATEGIES = ('CONFIG', 'LESS_LOADED', 'MOST_LOADED', 'LOCAL', 'LESS_LOADED_NODE', 'MOST_LOADED_NODE')


def node_loads(inst_load, req, node_of):
    nl = collections.Counter()
    for i, l in inst_load.items():
        nl[node_of[i]] += l
    for i, l in req.items():
        nl[node_of[i]] += l
    return nl


def eligible(cands, running, inst_load, req, node_of, load):
    """Candidates (declared order kept) that are RUNNING and whose node stays <= 100 with the extra load."""
    nl = node_loads(inst_load, req, node_of)
    return [i for i in cands if i in running and nl[node_of[i]] + load <= 100]


def acceptable(strategy, cands, running, inst_load, req, node_of, load, local):
    elig = eligible(cands, running, inst_load, req, node_of, load)
    if not elig:
        return {None}
    nl_all = node_loads(inst_load, req, node_of)
    il = {i: inst_load[i] + req.get(i, 0) for i in elig}
    nl = {i: nl_all[node_of[i]] for i in elig}
    if strategy == 'CONFIG':
        return {elig[0]}
    if strategy == 'LOCAL':
        return {local} if local in elig else {None}
    if strategy == 'LESS_LOADED':
        b = min((il[i], nl[i]) for i in elig)
        return {i for i in elig if (il[i], nl[i]) == b}
    if strategy == 'MOST_LOADED':
        b = max((il[i], nl[i]) for i in elig)
        return {i for i in elig if (il[i], nl[i]) == b}
    if strategy == 'LESS_LOADED_NODE':
        b = min((nl[i], il[i]) for i in elig)
        return {i for i in elig if (nl[i], il[i]) == b}
    if strategy == 'MOST_LOADED_NODE':
        b = max((nl[i], il[i]) for i in elig)
        return {i for i in elig if (nl[i], il[i]) == b}
    raise ValueError(strategy)
