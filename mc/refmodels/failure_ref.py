"""Reference model of the running-failure job sets (C06), from the statement.  No import of supvisors."""
STOP_APP, RESTART_APP, RESTART_PROC, CONTINUE = 'STOP_APPLICATION', 'RESTART_APPLICATION', 'RESTART_PROCESS', 'CONTINUE'


class HandlerRef:
    def __init__(self, procs):
        # procs: {namespec: {'app': name, 'sequenced': bool, 'strategy': str}}
        self.procs = procs
        self.app_job = {}     # app -> STOP_APP | RESTART_APP
        self.proc_job = {}    # namespec -> RESTART_PROC | CONTINUE

    def add(self, strategy, ns):
        app = self.procs[ns]['app']
        cur = self.app_job.get(app)
        if strategy == STOP_APP:
            self.app_job[app] = STOP_APP
            for q in [q for q in self.proc_job if self.procs[q]['app'] == app]:
                del self.proc_job[q]
        elif strategy == RESTART_APP:
            if cur == STOP_APP:
                return
            self.app_job[app] = RESTART_APP
            for q in [q for q in self.proc_job if self.procs[q]['app'] == app and self.procs[q]['sequenced']]:
                del self.proc_job[q]
        elif strategy == RESTART_PROC:
            if cur == STOP_APP or (cur == RESTART_APP and self.procs[ns]['sequenced']):
                return
            self.proc_job[ns] = RESTART_PROC
        elif strategy == CONTINUE:
            if cur == STOP_APP or (cur == RESTART_APP and self.procs[ns]['sequenced']):
                return
            if self.proc_job.get(ns) == RESTART_PROC:
                return
            self.proc_job[ns] = CONTINUE

    def add_default(self, ns, app_stopped):
        st = self.procs[ns]['strategy']
        if st in (STOP_APP, RESTART_APP, RESTART_PROC, CONTINUE):
            self.add(st, ns)
        if st == RESTART_PROC and app_stopped and self.procs[ns]['sequenced']:
            self.add(RESTART_APP, ns)

    def trigger(self, busy):
        """Returns the actions taken: list of (action, target)."""
        actions = []
        for app in sorted(a for a, j in self.app_job.items() if j == STOP_APP):
            if app not in busy:
                del self.app_job[app]
                actions.append(('stop_application', app))
        for app in sorted(a for a, j in self.app_job.items() if j == RESTART_APP):
            if app not in busy:
                del self.app_job[app]
                actions.append(('restart_application', app))
        for ns in sorted(q for q, j in self.proc_job.items() if j == RESTART_PROC):
            if self.procs[ns]['app'] not in busy:
                del self.proc_job[ns]
                actions.append(('restart_process', ns))
        for ns in [q for q, j in self.proc_job.items() if j == CONTINUE]:
            del self.proc_job[ns]
        return actions

    def abort(self):
        self.app_job.clear()
        self.proc_job.clear()

    def invariant(self):
        """Mutual exclusion by precedence."""
        errs = []
        for ns, j in self.proc_job.items():
            app = self.procs[ns]['app']
            cur = self.app_job.get(app)
            if cur == STOP_APP or (cur == RESTART_APP and self.procs[ns]['sequenced']):
                errs.append((ns, j, cur))
        return errs
