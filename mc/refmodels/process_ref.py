"""Reference model of the process status synthesis (C11), written from the statement only.

Latest report per instance + membership rule + display rules + forced-state arbitration.
No import of supvisors.  Where the statement is silent the model abstains: it then returns a *set* of
acceptable displayed states instead of a single value.
"""
STOPPED, STARTING, RUNNING, BACKOFF, STOPPING, EXITED, FATAL, UNKNOWN = 0, 10, 20, 30, 40, 100, 200, 1000
RUNNING_LIKE = (STARTING, RUNNING, BACKOFF)
STOPPED_LIKE = (STOPPED, EXITED, FATAL, UNKNOWN)
ADVANCE = (RUNNING, BACKOFF, STARTING, STOPPING)   # most advanced first


class ProcessRef:
    def __init__(self):
        self.last = {}        # instance -> [state, expected, reception order, event time]
        self.listed = set()
        self.order = 0
        self.forced = None    # state forced by Supvisors, or None
        self.forced_maybe = False   # a snapshot or a loss arrived while forced: the statement is silent
        self.stale = None     # displayed state just before a removal (statement silent on re-evaluation)

    # -- inputs ------------------------------------------------------------------------------
    def report(self, i, state, expected, event_time):
        self.stale = None
        self.order += 1
        self.last[i] = [state, expected, self.order, event_time]
        if state in RUNNING_LIKE:
            self.listed.add(i)
        elif state in STOPPED_LIKE:
            self.listed.discard(i)
        # STOPPING: stays listed if it was, is not added if it was not

    def snapshot(self, i, state, event_time):
        """Initial information of an instance (handshake)."""
        self.report(i, state, True, event_time)
        if self.forced is not None:
            self.forced_maybe = True

    def event(self, i, state, expected, event_time):
        self.report(i, state, expected, event_time)
        self.forced = None
        self.forced_maybe = False

    def lose(self, i):
        """The instance is lost: what ran there becomes FATAL, other entries untouched."""
        if i in self.listed:
            self.stale = None
            self.order += 1
            self.last[i] = [FATAL, False, self.order, self.last[i][3]]
            self.listed.discard(i)
            if self.forced is not None:
                self.forced_maybe = True

    def remove(self, i, displayed_before):
        self.last.pop(i, None)
        self.listed.discard(i)
        self.stale = displayed_before

    def force(self, target, state, event_time):
        """Returns True when the forced state is taken."""
        if target in self.last and self.last[target][3] > event_time:
            return False    # newer information from the targeted instance has already arrived
        self.forced = state
        self.forced_maybe = False
        return True

    # -- outputs -----------------------------------------------------------------------------
    def synthesis(self):
        """(state, expected_exit or None when not defined)."""
        L = self.listed
        if len(L) >= 2:
            states = {self.last[i][0] for i in L}
            for s in ADVANCE:
                if s in states:
                    return s, None
        if len(L) == 1:
            i = next(iter(L))
            return self.last[i][0], True
        if any(v[0] == STOPPING for v in self.last.values()):
            return STOPPING, True
        if not self.last:
            return None, None
        v = max(self.last.values(), key=lambda v: v[2])
        return v[0], v[1]

    def acceptable(self):
        """(set of acceptable displayed states or None, expected_exit or None)."""
        st, exp = self.synthesis()
        if st is None:
            return None, None
        if self.forced is None:
            want = {st}
        elif self.forced_maybe:
            want = {self.forced, st}
            exp = None
        else:
            want = {self.forced}
            exp = None
        if self.stale is not None:
            want = want | {self.stale}
            exp = None
        return want, exp

    def conflict(self):
        return len(self.listed) >= 2
