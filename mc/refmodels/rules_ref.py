"""Reference resolver of rules documents (C18), written from the statement and the user documentation.
Parses the XML text with the standard library on its own; no import of supvisors."""
import re
import xml.etree.ElementTree as ET

BOOL_TRUE = ('y', 'yes', 't', 'true', 'on', '1')
BOOL_FALSE = ('n', 'no', 'f', 'false', 'off', '0')
ENUMS = {
    'distribution': ('ALL_INSTANCES', 'SINGLE_INSTANCE', 'SINGLE_NODE'),
    'starting_strategy': ('CONFIG', 'LESS_LOADED', 'MOST_LOADED', 'LOCAL', 'LESS_LOADED_NODE', 'MOST_LOADED_NODE'),
    'starting_failure_strategy': ('ABORT', 'STOP', 'CONTINUE'),
    'running_failure_strategy': ('CONTINUE', 'RESTART_PROCESS', 'STOP_APPLICATION', 'RESTART_APPLICATION', 'SHUTDOWN',
                                 'RESTART'),
}


class Undefined(Exception):
    """The documentation defines no result (e.g. a pattern that is not a regular expression)."""


def best_patterns(name, patterns):
    """Patterns with the longest match (a set: ties are all acceptable)."""
    scored = []
    for p in patterns:
        try:
            mo = re.search(p, name)
        except re.error:
            raise Undefined(p)
        if mo:
            scored.append((len(mo.group()), p))
    if not scored:
        return set()
    best = max(s for s, _ in scored)
    return {p for s, p in scored if s == best}


class RulesRef:
    def __init__(self, xml_text):
        self.root = ET.fromstring(xml_text)
        self.aliases = {}
        for e in self.root.findall('alias'):
            if e.get('name') and e.text:
                self.aliases[e.get('name')] = [x.strip() for x in e.text.split(',') if x.strip()]
        self.models = {e.get('name'): e for e in self.root.findall('model') if e.get('name')}

    # -- lookup ------------------------------------------------------------------------------
    def application_elements(self, name):
        """Set of acceptable application elements (exact name beats any pattern)."""
        for e in self.root.findall('application'):
            if e.get('name') == name:
                return [e]
        pats = {}
        for e in self.root.findall('application'):
            if e.get('pattern') is not None and e.get('name') is None:
                pats[e.get('pattern')] = e      # a later element with the same pattern replaces the former
        return [pats[p] for p in best_patterns(name, list(pats))]

    def program_elements(self, app_elt, proc_name):
        """[(element, is_pattern)] acceptable."""
        progs = app_elt.find('programs')
        if progs is None:
            return []
        for e in progs.findall('program'):
            if e.get('name') == proc_name:
                return [(e, False)]
        pats = {}
        for e in progs.findall('program'):
            if e.get('pattern') is not None and e.get('name') is None:
                pats[e.get('pattern')] = e
        return [(pats[p], True) for p in best_patterns(proc_name, list(pats))]

    # -- values ------------------------------------------------------------------------------
    @staticmethod
    def _text(elt, tag):
        t = elt.findtext(tag)
        return t if t else None

    def identifiers(self, text):
        items = [x.strip() for x in text.split(',') if x.strip()]
        for name, repl in self.aliases.items():
            if name in items:
                pos = items.index(name)
                items[pos:pos + 1] = repl
        out = []
        for x in items:
            if x and x not in out:
                out.append(x)
        return out

    def load_common(self, elt, rules, program):
        t = self._text(elt, 'identifiers')
        if t:
            ids = self.identifiers(t)
            at, hs = '@' in ids, '#' in ids
            ids = [x for x in ids if x not in ('@', '#')]
            if ((at or hs) and not ids) or '*' in ids:
                ids = ['*']
            if at:
                rules['at'], rules['identifiers'] = ids, []
            if hs:
                rules['hash'], rules['identifiers'] = ids, []
            if not at and not hs:
                rules['identifiers'] = ids
        for tag in ('start_sequence', 'stop_sequence'):
            t = self._text(elt, tag)
            if t:
                try:
                    v = int(t)
                    if v >= 0:
                        rules[tag] = v
                except ValueError:
                    pass
        for tag in (('starting_failure_strategy', 'running_failure_strategy') if program else
                    ('distribution', 'starting_strategy', 'starting_failure_strategy', 'running_failure_strategy')):
            t = self._text(elt, tag)
            if t and t in ENUMS[tag]:
                rules[tag] = t
        if program:
            for tag in ('required', 'wait_exit'):
                t = self._text(elt, tag)
                if t:
                    if t.lower() in BOOL_TRUE:
                        rules[tag] = True
                    elif t.lower() in BOOL_FALSE:
                        rules[tag] = False
            t = self._text(elt, 'expected_loading')
            if t:
                try:
                    v = int(t)
                    if 0 <= v <= 100:
                        rules['expected_loading'] = v
                except ValueError:
                    pass

    def load_program(self, elt, rules, depth=3):
        """Referenced models first (followed while depth lasts), the element's own values supersede them."""
        if depth == 0:
            return
        ref = elt.findtext('reference')
        model = self.models.get(ref) if ref else None
        if model is not None:
            self.load_program(model, rules, depth - 1)
        self.load_common(elt, rules, True)

    # -- results -----------------------------------------------------------------------------
    def application_rules(self, name, defaults):
        """List of acceptable resolved rules (one per acceptable element)."""
        out = []
        elts = self.application_elements(name)
        if not elts:
            r = dict(defaults, managed=False)
            self.finish_application(name, r)
            return [r]
        for e in elts:
            r = dict(defaults, managed=True)
            self.load_common(e, r, False)
            self.finish_application(name, r)
            out.append(r)
        return out

    @staticmethod
    def finish_application(name, r):
        if r['stop_sequence'] < 0:
            r['stop_sequence'] = r['start_sequence']

    def program_rules(self, namespec, defaults):
        app, proc = namespec.split(':')
        out = []
        aelts = self.application_elements(app)
        if not aelts:
            r = dict(defaults)
            self.finish_program(r, False)
            return [r]
        for ae in aelts:
            pes = self.program_elements(ae, proc)
            if not pes:
                r = dict(defaults)
                self.finish_program(r, False)
                out.append(r)
            for pe, is_pattern in pes:
                r = dict(defaults)
                self.load_program(pe, r)
                self.finish_program(r, is_pattern)
                out.append(r)
        return out

    @staticmethod
    def finish_program(r, is_pattern):
        if r.get('at') and not is_pattern:
            r['identifiers'], r['at'] = ['*'], []
        if r.get('hash') and not is_pattern:
            r['identifiers'], r['hash'] = ['*'], []
        if r.get('at') and r.get('hash'):
            r['hash'] = []
        if r['required'] and r['start_sequence'] == 0:
            r['required'] = False
        if r['stop_sequence'] < 0:
            r['stop_sequence'] = r['start_sequence']


def spread_hash(n_procs, ref):
    """'#': process k (by index) goes to ref[k mod len(ref)]."""
    return [[ref[k % len(ref)]] for k in range(n_procs)] if ref else [[] for _ in range(n_procs)]


def spread_at(n_procs, ref):
    """'@': one process per instance, no roll-over: the processes in excess cannot be started."""
    return [[ref[k]] if k < len(ref) else [] for k in range(n_procs)]
