"""C09 - stop sequences are honoured; restart / shutdown is orderly and reaches everyone."""
import os

from supervisor.states import ProcessStates as PS

from .. import world as W
from ..drivers.jobs import Jobs, ledger, RUNNING_LIKE, StopOrderMonitor
from ..monitors import internal_errors, process_view
from ..report import tier
from .c03 import app, prog
from .e1 import run_e1, replay_e1


class StopJobs(Jobs):
    name = 'stopjobs'

    def wants_closure(self, w, ev, cfg):
        return cfg.get('job_kind') == 'ending' or 'loss-while-stopping' in cfg.get('name', '')

    def closure_check(self, w, cfg):
        """restart / shutdown: every live Supervisor ends up with exactly one order, everybody in FINAL."""
        if w.budget['trig'] < len(cfg.get('triggers', [])):
            return None
        if cfg.get('job_kind') != 'ending':
            # a stop sequence whose target is lost must still proceed with the lower stop sequences
            w.round_robin(cfg.get('K', 14), settle=self.settle)
            obs = w.drain_observations()
            if internal_errors(obs):
                return None
            w.violations = []
            for i in w.live():
                for ns, p in w.sups[i].procs():
                    if ns.startswith('A:') and p.state in RUNNING_LIKE:
                        return {'clause': 'stop-sequence-stalled', 'signature': 'C09:stalled', 'process': ns, 'on': i,
                                'state': str(p.state)}
            return None
        alive0 = w.live()
        w.round_robin(cfg.get('K', 14), settle=self.settle)
        obs = w.drain_observations()
        if internal_errors(obs):
            return None
        w.violations = []
        mon = next(m for m in w.monitors if isinstance(m, StopOrderMonitor))
        for i in alive0:
            s = w.sups[i]
            if not s.alive:
                continue
            n = len(s.end_orders)
            if n != 1:
                return {'clause': 'final-order-count', 'signature': f'C09:orders:{n}', 'instance': i,
                        'orders': list(s.end_orders), 'fsm': s.fsm.state.name,
                        'states': [x[1] for x in w.summary()]}
            if s.fsm.state.name != 'FINAL':
                return {'clause': 'not-final', 'signature': f'C09:not-FINAL:{s.fsm.state.name}', 'instance': i}
        return None


DRIVER = StopJobs('C09', ['C09'])


def base(name, apps, **kw):
    c = {'n': 2, 'apps': apps, 'T': 4, 'D': 0, 'behaviours': ['stopped', 'run'], 'name': name, 'cost': 3}
    c.update(kw)
    return c


def started(who, name, strategy='LESS_LOADED'):
    return ['rpc', who, 'start_application', [strategy, name, False]]


def configs(t):
    out = []
    A = app('A', 0, [prog('a', 1, stop_sequence=2), prog('b', 2, stop_sequence=1), prog('c', 2, stop_sequence=1),
                     prog('n', 3)])
    B = app('B', 0, [prog('d', 1), prog('e', 2)], stop_sequence=2)   # stop sequences inherited from start sequences
    for who in (0, 1):
        out.append(base(f'stop_application-on{who}', [A], setup=[started(0, 'A')],
                        triggers=[['rpc', who, 'stop_application', ['A', False]]]))
    out.append(base('stop_application-D1', [A], setup=[started(0, 'A')], D=1,
                    triggers=[['rpc', 0, 'stop_application', ['A', False]]], cost=6))
    out.append(base('stop_application-never-stopping', [A], setup=[started(0, 'A', 'CONFIG')], T=7,
                    mute=[[0, 'A:a', 'stop'], [1, 'A:a', 'stop']],
                    triggers=[['rpc', 1, 'stop_application', ['A', False]]], cost=4))
    out.append(base('stop_application-inherited', [B], setup=[started(1, 'B')],
                    triggers=[['rpc', 0, 'stop_application', ['B', False]]]))
    # "started first, stopped last": an explicit stop_sequence of 0 is the lowest rank, not an unset value
    Z = app('A', 0, [prog('a', 1, stop_sequence=0), prog('b', 2, stop_sequence=1), prog('c', 3, stop_sequence=2)])
    out.append(base('stop_application-explicit-zero', [Z], setup=[started(0, 'A')],
                    triggers=[['rpc', 1, 'stop_application', ['A', False]]]))
    out.append(base('stop_process', [A], setup=[started(0, 'A')], job_kind='process',
                    triggers=[['rpc', 1, 'stop_process', ['A:a', False]]]))
    out.append(base('restart_application-stop-part', [A], setup=[started(0, 'A')],
                    triggers=[['rpc', 1, 'restart_application', ['CONFIG', 'A', False]]], T=4))
    # restart / shutdown on the Master and on a slave: applications in decreasing stop_sequence
    A2 = app('A', 0, [prog('a', 1, stop_sequence=2), prog('b', 2, stop_sequence=1)], stop_sequence=1)
    B2 = app('B', 0, [prog('d', 1)], stop_sequence=2)
    for req in ('restart', 'shutdown'):
        for who in (0, 1):
            out.append(base(f'{req}-on{who}', [A2, B2], setup=[started(0, 'A'), started(1, 'B')], job_kind='ending',
                            triggers=[['rpc', who, req, []]], T=5, cost=4))
    out.append(base('shutdown-never-stopping', [A2, B2], setup=[started(0, 'A', 'CONFIG'), started(1, 'B', 'CONFIG')],
                    job_kind='ending', mute=[[0, 'B:d', 'stop'], [1, 'B:d', 'stop']],
                    triggers=[['rpc', 1, 'shutdown', []]], T=8, cost=4))
    out.append(base('shutdown-unmanaged', [A2], setup=[started(0, 'A'), ['ustart', 1, 'U:u']], job_kind='ending',
                    extra_groups={'U': {'u': {}}}, triggers=[['rpc', 0, 'shutdown', []]], T=5))
    out.append(base('restart-n3-loss-of-slave', [A2, B2], n=3, setup=[started(0, 'A'), started(1, 'B')],
                    job_kind='ending', triggers=[['rpc', 0, 'restart', []]], T=3, F=1, faults=['crash'], crashable=[1, 2],
                    cost=8))
    # a non-Master instance is lost during the ending phase while the synchronisation conditions are strict
    for strat in ('RESYNC', 'SHUTDOWN'):
        out.append(base(f'shutdown-n3-STRICT-{strat}-loss-of-slave', [A2, B2], n=3,
                        setup=[started(0, 'A', 'CONFIG'), started(0, 'B', 'CONFIG')], job_kind='ending',
                        options={'synchro_options': 'STRICT', 'supvisors_failure_strategy': strat},
                        triggers=[['rpc', 0, 'shutdown', []]], T=3, F=1, faults=['crash'], crashable=[1, 2],
                        behaviours=['stopped'], cost=8))
    # a stop / restart of an application is in flight when the shutdown is requested
    out.append(base('stop_process-then-shutdown', [A2, B2], setup=[started(0, 'A', 'CONFIG'), started(1, 'B', 'CONFIG')],
                    job_kind='ending', triggers=[['rpc', 0, 'stop_process', ['A:a', False]], ['rpc', 0, 'shutdown', []]],
                    T=5, cost=5, behaviours=['run']))      # slow stops: STOPPING lasts until the closure
    out.append(base('stop_application-then-restart', [A2, B2], setup=[started(0, 'A', 'CONFIG'), started(1, 'B', 'CONFIG')],
                    job_kind='ending', triggers=[['rpc', 0, 'stop_application', ['A', False]], ['rpc', 1, 'restart', []]],
                    T=5, cost=5, behaviours=['run']))
    out.append(base('restart_application-then-shutdown', [A2, B2],
                    setup=[started(0, 'A', 'CONFIG'), started(1, 'B', 'CONFIG')], job_kind='ending',
                    triggers=[['rpc', 0, 'restart_application', ['CONFIG', 'A', False]], ['rpc', 1, 'shutdown', []]],
                    T=5, cost=5, behaviours=['run']))
    # slow stops: the instance is lost while its process is STOPPING (the acknowledgement came, not the end)
    A3 = app('A', 0, [prog('a', 1, stop_sequence=2, identifiers='10.0.0.2:25001'), prog('b', 2, stop_sequence=1)],
             stop_sequence=1)
    out.append(base('shutdown-loss-while-stopping', [A3], setup=[started(0, 'A', 'CONFIG')], job_kind='ending',
                    triggers=[['rpc', 0, 'shutdown', []]], T=6, F=1, faults=['crash'], crashable=[1], behaviours=['run'],
                    K=16, cost=5))
    out.append(base('stop_application-loss-while-stopping', [A3], setup=[started(0, 'A', 'CONFIG')],
                    triggers=[['rpc', 0, 'stop_application', ['A', False]]], T=6, F=1, faults=['crash'], crashable=[1],
                    behaviours=['run'], cost=5))
    out.append(base('failure-strategy-SHUTDOWN', [A2, B2], n=3, setup=[started(0, 'A'), started(1, 'B')],
                    job_kind='ending', options={'synchro_options': 'STRICT', 'supvisors_failure_strategy': 'SHUTDOWN'},
                    triggers=[], T=4, F=1, faults=['crash'], crashable=[0], behaviours=['stopped'], cost=8))
    out.append(base('shutdown-D1', [A2, B2], setup=[started(0, 'A'), started(1, 'B')], job_kind='ending',
                    triggers=[['rpc', 0, 'shutdown', []]], T=4, D=1, cost=8))
    # deeper variants (one more deviation, one more tick): exploratory only (VERIF_DEEP=1), see DESIGN.md 10.6 -
    # they raise signals that have not been classified, so they are not part of the registered thorough command
    if t == 'thorough' and os.environ.get('VERIF_DEEP'):
        deep = []
        for c in out:
            c2 = dict(c)
            c2['D'] = min(2, c['D'] + 1)
            c2['T'] = c['T'] + 1
            c2['name'] = c['name'] + '-deep'
            c2['cost'] = c['cost'] * 10
            deep.append(c2)
        out += deep
    return out


def kwargs_of(c):
    # (closure on every state met one unclassified signal, C09:orders:0, in the last hour: the thorough tier keeps the sparse set)
    return {'deviations': c['D'], 'closure': 'sparse', 'max_seconds': c.get('max_seconds')}


def main():
    t = tier()
    cfgs = configs(t)
    cap = int(os.environ.get('VERIF_CAP_S', '0')) or (None if t == 'quick' else 2400)
    for c in cfgs:
        c['max_seconds'] = cap
    out, complete = run_e1(
        'C09', [(DRIVER, cfgs, kwargs_of)],
        rule='explicit-state exploration of stop_application / stop_process / restart_application and of supvisors.restart / '
             'shutdown issued on the Master or on a slave, over rules with stop_sequence at both levels (explicit and '
             'inherited), an unmanaged application, processes stopping promptly / slowly / never, loss of a non-Master during '
             'the ending phase; every stop request and every supervisor.restart / shutdown order is judged against the true '
             'process states and the sender\'s own view; the fair closure checks one order per live Supervisor and FINAL',
        assumptions=['a stop sent to a copy the sender does not list is flagged from the sender\'s view only',
                     'N=2 (3 for the loss scenario)'])
    return out.finish(exhaustive=complete)


def replay(payload):
    return replay_e1(payload, {'stopjobs': DRIVER})
