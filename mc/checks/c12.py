"""C12 - all instances agree on where processes run, and that view is true (at quiescence)."""
import os

from supervisor.states import ProcessStates as PS

from ..drivers.jobs import Jobs, RUNNING_LIKE, gt_state
from ..monitors import process_view, instance_states, internal_errors
from ..report import tier
from .c03 import app, prog
from .e1 import run_e1, replay_e1

RUN_NAMES = ('STARTING', 'RUNNING', 'BACKOFF', 'STOPPING')


def quiescent(w):
    if any(q for q in w.channels.values()):
        return False
    for i in w.live():
        for st in instance_states(w.sups[i]).values():
            if st in ('CHECKING', 'CHECKED', 'FAILED'):
                return False
    return True


class IncarnationTracker:
    """(observer, peer) pairs whose view is about a previous life of the peer (restart not handshaken yet)."""

    def __init__(self):
        self.stale = set()

    def key(self, c):
        return ('inc', tuple(sorted(self.stale)))

    def after_step(self, w, ev):
        if ev[0] == 'restart':
            for i in range(w.n):
                if i != ev[1]:
                    self.stale.add((i, ev[1]))
            self.stale = {x for x in self.stale if x[0] != ev[1]}

    def on_instance_state(self, w, o, peer_ident, old, new):
        if new == 'CHECKED':
            self.stale.discard((o, w.idx_of[peer_ident]))


class ViewJobs(Jobs):
    name = 'viewjobs'

    def build(self, cfg):
        w = super().build(cfg)
        for i in cfg.get('late', []):
            w.sups[i].alive = False
        w.monitors.append(IncarnationTracker())
        return w

    def scenario(self, cfg):
        return super().scenario(cfg)

    def env_events(self, w, cfg):
        evs = super().env_events(w, cfg)
        if cfg.get('late') or 'restart' in cfg.get('faults', ()):
            evs += [('restart', i) for i in range(w.n) if not w.sups[i].alive and w.sups[i].incarnation == 0]
        if 'isolate' in cfg.get('faults', ()):
            if w.budget['F'] > 0:
                evs += [('isolate', i) for i in w.live() if i in cfg.get('crashable', w.live())
                        and not any(i in c for c in w.cut)]
            evs += [('rejoin', i) for i in range(w.n) if any(i in c for c in w.cut)]
        return evs

    def step_check(self, w, ev, obs, cfg):
        if ev[0] == 'isolate':
            w.budget['F'] -= 1
        # a process changed state while some live instance had not (yet) admitted another one (or itself): the known
        # handshake windows (see known_findings.json) - the signature says so.  A peer that is CHECKED is admitted
        # (publications are sent to it and accepted from it): it is not part of those windows.
        changed = ev[0] in ('proc', 'ustart', 'ustop', 'udisable', 'uenable') or any(t['name'] in ('start_args', 'startProcess', 'stopProcess')
                                                               for t in obs['transport'])
        if changed and not w.budget.get('overlap'):
            live = w.live()
            for a in live:
                seen = instance_states(w.sups[a])
                if any(seen.get(w.idents[b]) not in ('CHECKED', 'RUNNING') for b in live):
                    w.budget['overlap'] = 1
                    break
        out = super().step_check(w, ev, obs, cfg)
        if out:
            return out
        if quiescent(w):
            v = self.compare_views(w)
            if v:
                if w.budget.get('overlap'):
                    v['signature'] += ':event-during-handshake'
                return [v]
        return []

    def compare_views(self, w):
        live = [i for i in w.live()]
        stale = next(m for m in w.monitors if isinstance(m, IncarnationTracker)).stale
        if stale:
            return None    # somebody's view is about a previous life of a restarted peer: detection pending (C07)
        views = {i: process_view(w.sups[i]) for i in live}
        seen = {i: instance_states(w.sups[i]) for i in live}
        for i in live:
            # truth: what the Supervisors of the instances i sees RUNNING report
            for ns, pv in views[i].items():
                truth = set()
                for j in live:
                    if seen[i].get(w.idents[j]) == 'RUNNING' and frozenset((i, j)) not in w.cut:
                        st = gt_state(w, j, ns)
                        if st in RUNNING_LIKE or st == PS.STOPPING:
                            truth.add(w.idents[j])
                listed = {x for x in pv['identifiers']
                          if seen[i].get(x) == 'RUNNING' and frozenset((i, w.idx_of[x])) not in w.cut
                          and w.sups[w.idx_of[x]].alive}   # a crashed instance has nothing to report
                # a STOPPING copy is listed only if it was listed before: accept both for STOPPING copies
                stopping = {w.idents[j] for j in live if gt_state(w, j, ns) == PS.STOPPING}
                if listed - stopping != truth - stopping:
                    # who is wrong: the observer itself about its own process, or about a peer's
                    wrong = (listed ^ truth) - stopping
                    kind = 'own' if w.idents[i] in wrong else 'peer'
                    return {'clause': 'view-differs-from-truth', 'signature': f'C12:view-vs-truth:{kind}',
                            'observer': i, 'process': ns, 'listed': sorted(listed), 'truth': sorted(truth)}
                if truth and not (truth <= stopping) and pv['statename'] not in RUN_NAMES:
                    return {'clause': 'running-process-shown-stopped', 'signature': 'C12:running-shown-stopped',
                            'observer': i, 'process': ns, 'shown': pv['statename'], 'truth': sorted(truth)}
        # the enabled / disabled flag of every program on every instance seen RUNNING is the true one
        for i in live:
            for j in live:
                if seen[i].get(w.idents[j]) != 'RUNNING' or frozenset((i, j)) in w.cut:
                    continue
                for ns, p in w.sups[j].procs():
                    a_, p_ = ns.split(':')
                    try:
                        proc = w.sups[i].context.applications[a_].processes[p_]
                    except KeyError:
                        continue
                    info = proc.info_map.get(w.idents[j])
                    truth = bool(p.supvisors_config.program_config.disabled)
                    if info is not None and bool(info.get('disabled')) != truth:
                        return {'clause': 'disabled-flag-differs-from-truth', 'signature': 'C12:disabled-vs-truth',
                                'observer': i, 'instance': j, 'process': ns, 'shown': bool(info.get('disabled')),
                                'truth': truth}
        for a in live:
            for b in live:
                if a >= b or frozenset((a, b)) in w.cut:
                    continue
                if seen[a].get(w.idents[b]) != 'RUNNING' or seen[b].get(w.idents[a]) != 'RUNNING':
                    continue
                for ns in set(views[a]) & set(views[b]):
                    pa, pb = views[a][ns], views[b][ns]
                    # compare on the instances both see RUNNING
                    common = {x for x in w.idents if seen[a].get(x) == 'RUNNING' and seen[b].get(x) == 'RUNNING'}
                    ia, ib = set(pa['identifiers']) & common, set(pb['identifiers']) & common
                    if ia != ib:
                        return {'clause': 'instances-disagree-on-placement', 'signature': 'C12:disagree:identifiers',
                                'a': a, 'b': b, 'process': ns, 'a_lists': sorted(ia), 'b_lists': sorted(ib)}
                    ra, rb = pa['statename'] in RUN_NAMES, pb['statename'] in RUN_NAMES
                    if set(pa['identifiers']) == set(pb['identifiers']) and ra != rb:
                        return {'clause': 'instances-disagree-on-running', 'signature': 'C12:disagree:running',
                                'a': a, 'b': b, 'process': ns, 'a_shows': pa['statename'], 'b_shows': pb['statename']}
                    if ra and rb and set(pa['identifiers']) == set(pb['identifiers']) \
                            and pa['statename'] != pb['statename']:
                        return {'clause': 'instances-disagree-on-running-state', 'signature': 'C12:disagree:state',
                                'a': a, 'b': b, 'process': ns, 'a_shows': pa['statename'], 'b_shows': pb['statename']}
        return None


DRIVER = ViewJobs('C12', ['C12'])
U = app('U', 0, [prog('u', 0), prog('v', 0)])


def base(name, **kw):
    c = {'n': 2, 'apps': [U], 'T': 3, 'D': 0, 'behaviours': ['run', 'stopped', 'exit_bad', 'backoff', 'retry', 'giveup'],
         'backoffs': 1, 'name': name, 'cost': 3, 'U': 2,
         'user_events': [['ustart', 1, 'U:u'], ['ustop', 1, 'U:u']], 'triggers': []}
    c.update(kw)
    return c


def configs(t):
    out = [
        base('cold-n2-process-on-1', warm=0, T=3, U=1, behaviours=['run', 'exit_bad']),
        base('cold-n2-process-on-0', warm=0, T=3, U=1, behaviours=['run', 'exit_bad'],
             user_events=[['ustart', 0, 'U:u'], ['ustop', 0, 'U:u']]),
        base('cold-n2-D1', warm=0, T=3, U=1, D=1, behaviours=['run'], cost=8),
        base('warm-n2-D1', D=1, T=3, cost=6),
        base('warm-n2-two-copies', T=3, user_events=[['ustart', 0, 'U:u'], ['ustart', 1, 'U:u'], ['ustop', 0, 'U:u']],
             behaviours=['run', 'stopped']),
        base('n3-late-join', n=3, late=[2], T=2, U=1, behaviours=['run'], cost=8),
        base('n3-crash', n=3, T=2, U=1, F=1, faults=['crash'], crashable=[1, 2], behaviours=['run'], cost=8),
        base('n2-crash-restart', T=4, U=1, F=1, faults=['crash', 'restart'], crashable=[1], behaviours=['run', 'stopped'],
             cost=8),
        base('n2-isolate-rejoin', T=4, U=1, F=1, faults=['isolate'], crashable=[1], behaviours=['run', 'stopped'], cost=8),
        base('n2-started-by-supvisors', apps=[app('A', 0, [prog('a', 1), prog('b', 2)])],
             triggers=[['rpc', 0, 'start_application', ['LESS_LOADED', 'A', False]]], user_events=[], T=3, D=1,
             behaviours=['run', 'exit_bad', 'backoff', 'giveup'], cost=6),
    ]
    # a program is disabled on an instance that has just joined (CHECKED for the others, or for itself)
    out.append(base('n3-late-join-disable', n=3, late=[2], T=2, U=1, behaviours=['run'], cost=8,
                    user_events=[['udisable', 2, 'U:u'], ['udisable', 0, 'U:v']]))
    # a duplicate conciliated by Supvisors: every instance must end with the view of the survivors
    for st in ('SENICIDE', 'INFANTICIDE', 'STOP', 'RESTART'):
        out.append(base(f'n2-conciliation-{st}', apps=[app('A', 0, [prog('a', 1)])],
                        options={'conciliation_strategy': st},
                        setup=[['rpc', 0, 'start_process', ['CONFIG', 'A:a', '', False]]] + [['tick', i] for i in (0, 1)] * 3,
                        user_events=[['ustart', 1, 'A:a']], U=1, T=4, behaviours=['run', 'stopped'], cost=5))
    out.append(base('n3-conciliation-SENICIDE', n=3, apps=[app('A', 0, [prog('a', 1)])],
                    options={'conciliation_strategy': 'SENICIDE'},
                    setup=[['rpc', 0, 'start_process', ['CONFIG', 'A:a', '', False]]] + [['tick', i] for i in (0, 1, 2)] * 3,
                    user_events=[['ustart', 2, 'A:a']], U=1, T=3, behaviours=['run', 'stopped'], cost=8))
    if t == 'thorough':
        deep = []
        for c in out:
            c2 = dict(c)
            c2['D'] = min(2, c['D'] + 1)
            c2['T'] = c['T'] + 1
            c2['name'] = c['name'] + '-deep'
            c2['cost'] = c['cost'] * 10
            deep.append(c2)
        out += deep
    return out


def kwargs_of(c):
    return {'deviations': c['D'], 'closure': 'none', 'max_seconds': c.get('max_seconds')}


def main():
    t = tier()
    cfgs = configs(t)
    cap = int(os.environ.get('VERIF_CAP_S', '0')) or (None if t == 'quick' else 2400)
    for c in cfgs:
        c['max_seconds'] = cap
    out, complete = run_e1(
        'C12', [(DRIVER, cfgs, kwargs_of)],
        rule='explicit-state exploration of 1-2 processes changing state (direct Supervisor starts / stops, exits, backoffs, '
             'starts by Supvisors, duplicates conciliated by each automatic strategy) on 2-3 instances during the cold start, in OPERATION, while a third instance joins late, '
             'crashes, restarts or a partition heals; at every quiescent state (no pending message, no handshake in progress) '
             'the process views of all live connected instances are compared with each other and with the true Supervisor '
             'process tables of the instances they see RUNNING',
        assumptions=['which stopped-like state is displayed is not compared',
                     'a STOPPING copy may or may not be listed (it stays listed only if it was)'])
    return out.finish(exhaustive=complete)


def replay(payload):
    return replay_e1(payload, {'viewjobs': DRIVER})
