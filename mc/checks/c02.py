"""C02 - the Supvisors state only moves along the documented state graph."""
import os

from ..drivers.cluster import Cluster
from ..report import tier
from .e1 import run_e1, replay_e1
from .membership import cfg, kwargs_of

DRIVER = Cluster('C02', ['C02'])
DRIVER.name = 'cluster'


def configs(t):
    RQ = ['restart', 'shutdown']
    q = [
        cfg(2, 4, 2, cost=3),
        cfg(3, 3, 0, cost=3),
        cfg(3, 4, 0, F=1, faults=['crash'], warm=6, cost=6),
        cfg(3, 3, 0, F=1, faults=['crash'], so='STRICT', strategy='RESYNC', warm=6, cost=4),
        cfg(3, 3, 0, F=1, faults=['crash'], so='STRICT', strategy='SHUTDOWN', warm=6, cost=4),
        cfg(2, 4, 1, F=1, faults=['crash', 'restart'], warm=5, cost=5),
        cfg(2, 3, 1, requests=RQ, warm=5, cost=3),
        cfg(3, 2, 0, requests=RQ, F=1, faults=['crash'], warm=6, cost=6),
        cfg(3, 3, 0, requests=RQ, warm=6, cost=6),
        cfg(2, 4, 1, so='USER', requests=['end_sync'], cost=6),
        cfg(3, 2, 0, F=1, faults=['isolate'], fence=True, warm=6, crashable=[0, 2], cost=6),
        cfg(2, 5, 1, F=1, faults=['isolate'], fence=True, warm=5, cost=5),
        cfg(3, 4, 0, so='CORE', core=['mm'], cost=5),
        cfg(2, 5, 0, rules=True, F=1, faults=['crash'], cost=4),
        cfg(2, 3, 1, rules=True, requests=RQ, warm=5, cost=4),
        # a second request (restart then shutdown, or the reverse) while the first one still has a process to stop
        cfg(2, 4, 0, rules=True, requests=RQ, warm=5, R=2, cost=5),
        cfg(3, 4, 0, late=[2], warm=6, cost=4),
        cfg(2, 5, 1, F=1, faults=['stall'], warm=5, cost=5),
    ]
    if t == 'quick':
        return q
    th = []
    for c in q:
        c2 = dict(c)
        if not c.get('full'):
            c2['D'] = min(2, c['D'] + 1)
            c2['T'] = c['T'] + 1
            c2['F'] = c['F'] + (1 if c['F'] and c['n'] == 2 else 0)
        else:
            c2['T'] = 3
        c2['name'] = c['name'] + '-deep'
        c2['cost'] = c['cost'] * 10
        th.append(c2)
    return q + th


def main():
    t = tier()
    cfgs = configs(t)
    cap = int(os.environ.get('VERIF_CAP_S', '0')) or (None if t == 'quick' else 2400)
    for c in cfgs:
        c['max_seconds'] = cap
    out, complete = run_e1(
        'C02', [(DRIVER, cfgs, kwargs_of('none'))],
        rule='explicit-state exploration of N real Supvisors cores: every interleaving of ticks, deliveries, '
             'instance crashes/isolations/restarts, restart/shutdown/end_sync requests within the stated '
             'deviation (D), tick (T) and fault (F) bounds; every published change of fsm_statename is checked '
             'against the verifier\'s own copy of the documented graph, the Master conditions and the '
             'slave-after-Master order',
        assumptions=['FIFO channels per (sender, receiver); handler atomicity (one Supervisor main thread)',
                     'equal tick rates with at most one tick of drift', 'N <= 3 instances'])
    if os.environ.get('VERIF_CALIBRATE'):
        pass
    return out.finish(exhaustive=complete)


def replay(payload):
    return replay_e1(payload, {'cluster': DRIVER})
