"""C20 - statistics histories stay bounded, aligned and sane (E2, product BFS to the fixpoint)."""
import math
import os

from .. import world as _w   # virtual clock
from ..report import Outcome, tier
from ..seq import Spec, run_specs, rebuild, checked_apply

from supvisors.statscompiler import HostStatisticsCompiler, ProcStatisticsCompiler


class _Log:
    level = 50

    def __getattr__(self, n):
        if n.startswith('__'):
            raise AttributeError(n)
        return lambda *a, **k: None


class _Opt:
    def __init__(self, periods, histo):
        self.stats_periods = list(periods)
        self.stats_histo = histo
        self.stats_irix_mode = True


class _Sv:
    def __init__(self, periods, histo):
        self.options = _Opt(periods, histo)
        self.logger = _Log()


def cap(x, hi):
    return x if x < hi else hi


def sign(x):
    return (x > 0) - (x < 0)


# ---------------------------------------------------------------------------------------------
# host statistics
# ---------------------------------------------------------------------------------------------
class HostState:
    pass


class HostSpec(Spec):
    def __init__(self, periods, histo):
        self.periods = tuple(periods)
        self.histo = histo
        self.name = f'C20-host-{periods}-{histo}'

    def new(self):
        st = HostState()
        st.comp = HostStatisticsCompiler(_Sv(self.periods, self.histo))
        st.now = 100.0
        st.nics = {'lo': [1000, 1000]}
        st.cpu = [[10.0, 10.0], [5.0, 5.0]]
        # reference: per (identifier, period): last reference sample and number of points produced
        st.ref = {}
        st.pushes = 0
        st.b_pushes = 0
        return st

    def ops(self, cfg=None):
        return [('push', 'A'), ('dt', 5.0), ('dt', 2.5), ('cnt', 'inc'), ('nic', 'add'), ('nic', 'del'),
                ('cnt', 'wrap'), ('cnt', 'wrap_out'), ('cnt', 'wrap_in'), ('cpu', 'work'), ('cpu', 'idle'),
                ('push', 'B')]

    def enabled(self, st, op):
        if op == ('nic', 'add'):
            return 'eth1' not in st.nics
        if op == ('nic', 'del'):
            return 'eth1' in st.nics
        if op == ('push', 'B'):
            # an instance never seen before shows up late and is pushed a few times only
            return st.pushes >= 2 and st.b_pushes < 3
        return True

    def sample(self, st):
        return {'now': st.now, 'cpu': [tuple(x) for x in st.cpu], 'mem': 12.5,
                'net_io': {k: tuple(v) for k, v in st.nics.items()},
                'disk_io': {'d' + k: tuple(v) for k, v in st.nics.items()},
                'disk_usage': {'/' + k: 40.0 for k in st.nics}}

    def apply(self, st, op):
        k = op[0]
        if k == 'dt':
            st.now += op[1]
            return []
        if k == 'nic':
            if op[1] == 'add':
                st.nics['eth1'] = [500, 500]
            else:
                st.nics.pop('eth1', None)
            return []
        if k == 'cnt':
            for v in st.nics.values():
                if op[1] == 'inc':
                    v[0] += 128
                    v[1] += 256
                elif op[1] == 'wrap_out':
                    # one counter of the pair wraps while the other one goes on
                    v[0] += 128
                    v[1] = 4
                elif op[1] == 'wrap_in':
                    v[0] = 3
                    v[1] += 256
                else:
                    v[0], v[1] = 3, 4
            return []
        if k == 'cpu':
            for j in st.cpu:
                if op[1] == 'work':
                    j[0] += 2.0
                else:
                    j[1] += 3.0
            return []
        # push
        ident = op[1]
        stats = self.sample(st)
        st.pushes += 1
        if ident == 'B':
            st.b_pushes += 1
        errs = []
        before = {p: len(inst.times) for p, inst in st.comp.instance_map.get(ident, {}).items()}
        res = st.comp.push_statistics(ident, stats)
        produced = {r['target_period']: r for r in res}
        for period in self.periods:
            ref = st.ref.get((ident, period))
            expect_point = ref is not None and stats['now'] - ref['now'] >= period
            if bool(period in produced) != expect_point:
                errs.append({'clause': 'period-gate', 'signature': f'C20:host-gate:{"missing" if expect_point else "early"}',
                             'period': period, 'now': stats['now'], 'ref_now': ref and ref['now']})
            if period in produced and ref is not None:
                r = produced[period]
                errs += self.check_integrated(r, ref, stats)
            if ref is None or expect_point:
                st.ref[(ident, period)] = stats
        errs += self.invariants(st, ident)
        return errs

    @staticmethod
    def check_integrated(r, ref, last):
        errs = []
        for (lw, li), (rw, ri), got in zip(last['cpu'], ref['cpu'], r['cpu']):
            tot = (lw - rw) + (li - ri)
            want = 100.0 * (lw - rw) / tot if tot else 0
            if abs(got - want) > 1e-9:
                errs.append({'clause': 'integrated-cpu', 'signature': 'C20:host-integrated-cpu', 'got': got, 'want': want})
        dur = last['now'] - ref['now']
        for intf, (li_, lo_) in last['net_io'].items():
            if intf in ref['net_io']:
                ri_, ro_ = ref['net_io'][intf]
                if ri_ <= li_ and ro_ <= lo_:
                    want = [(li_ - ri_) / dur / 128, (lo_ - ro_) / dur / 128]
                    got = r['net_io'].get(intf)
                    if got is None or any(abs(a - b) > 1e-9 for a, b in zip(got, want)):
                        errs.append({'clause': 'integrated-io', 'signature': 'C20:host-integrated-io',
                                     'got': got, 'want': want})
        for intf, vals in r['net_io'].items():
            if any((not math.isfinite(v)) or v < 0 for v in vals):
                errs.append({'clause': 'io-rate-range', 'signature': 'C20:host-io-range', 'values': vals})
        return errs

    def invariants(self, st, ident):
        errs = []
        H = self.histo
        for period, inst in st.comp.instance_map.get(ident, {}).items():
            if len(inst.times) > H or len(inst.mem) > H:
                errs.append({'clause': 'depth', 'signature': 'C20:host-depth:times', 'len': len(inst.times)})
            if len(inst.mem) != len(inst.times):
                errs.append({'clause': 'alignment', 'signature': 'C20:host-align:mem',
                             'mem': len(inst.mem), 'times': len(inst.times)})
            for lst in inst.cpu:
                if len(lst) != len(inst.times):
                    errs.append({'clause': 'alignment', 'signature': 'C20:host-align:cpu',
                                 'cpu': len(lst), 'times': len(inst.times)})
                if any(not (0.0 <= v <= 100.0) for v in lst):
                    errs.append({'clause': 'cpu-range', 'signature': 'C20:host-cpu-range', 'values': list(lst)})
            for name, d in (('net_io', inst.net_io), ('disk_io', inst.disk_io), ('disk_usage', inst.disk_usage)):
                for k, (upt, series) in d.items():
                    if len(upt) > H:
                        errs.append({'clause': 'depth', 'signature': f'C20:host-depth:{name}', 'len': len(upt)})
                    for sr in series:
                        if len(sr) != len(upt):
                            errs.append({'clause': 'alignment', 'signature': f'C20:host-align:{name}',
                                         'series': len(sr), 'times': len(upt), 'entity': k})
                        if any((not math.isfinite(v)) or v < 0 for v in sr):
                            errs.append({'clause': 'io-rate-range', 'signature': f'C20:host-range:{name}',
                                         'values': list(sr)})
        return errs

    def key(self, st):
        parts = []
        for ident in ('A', 'B'):
            for period, inst in sorted(st.comp.instance_map.get(ident, {}).items()):
                ref = inst.ref_stats
                rel = None
                if ref:
                    rel = (cap(st.now - ref['now'], 2 * period + 1),
                           tuple(sorted((k, (sign(st.nics[k][0] - v[0]), sign(st.nics[k][1] - v[1])) if k in st.nics else None)
                                        for k, v in ref['net_io'].items())),
                           tuple(sorted(k for k in st.nics if k not in ref['net_io'])),
                           tuple((sign(c[0] - r[0]), sign(c[1] - r[1])) for c, r in zip(st.cpu, ref['cpu'])))
                parts.append((ident, period, len(inst.times), len(inst.mem), tuple(len(x) for x in inst.cpu),
                              tuple(sorted((k, len(u), tuple(len(s) for s in sr)) for k, (u, sr) in inst.net_io.items())),
                              tuple(sorted((k, len(u), tuple(len(s) for s in sr)) for k, (u, sr) in inst.disk_io.items())),
                              tuple(sorted((k, len(u), tuple(len(s) for s in sr)) for k, (u, sr) in inst.disk_usage.items())),
                              rel))
        refs = tuple(sorted((k, cap(st.now - v['now'], 30)) for k, v in st.ref.items()))
        return (tuple(parts), tuple(sorted(st.nics)), refs, min(st.pushes, 2), st.b_pushes)

    def nontrivial(self, hist):
        # at least two pushes for the same identifier with something happening in between
        pushes = [i for i, o in enumerate(hist) if o[0] == 'push']
        return len(pushes) >= 2 and any(o[0] != 'push' for o in hist[pushes[0]:pushes[-1]])


# ---------------------------------------------------------------------------------------------
# process statistics
# ---------------------------------------------------------------------------------------------
class ProcState:
    pass


class ProcSpec(Spec):
    def __init__(self, periods, histo):
        self.periods = tuple(periods)
        self.histo = histo
        self.name = f'C20-proc-{periods}-{histo}'

    def new(self):
        st = ProcState()
        st.comp = ProcStatisticsCompiler(_Opt(self.periods, self.histo), _Log())
        st.now = 100.0
        st.pid = {'A': 100, 'B': 200}
        st.work = 1.0
        st.ref = {}      # (ident, period) -> (pid, sample)
        st.b_pushes = 0
        return st

    def ops(self, cfg=None):
        return [('push', 'A'), ('dt', 5.0), ('dt', 2.5), ('work',), ('pid', 'A', 'new'), ('pid', 'A', 'zero'),
                ('push', 'B'), ('pid', 'B', 'zero')]

    def enabled(self, st, op):
        if op == ('push', 'B'):
            return st.b_pushes < 3
        return True

    def apply(self, st, op):
        k = op[0]
        if k == 'dt':
            st.now += op[1]
            return []
        if k == 'work':
            st.work += 0.5
            return []
        if k == 'pid':
            if op[2] == 'new':
                st.pid[op[1]] = (st.pid[op[1]] or (100 if op[1] == 'A' else 200)) + 1
            else:
                st.pid[op[1]] = 0
            return []
        ident = op[1]
        if ident == 'B':
            st.b_pushes += 1
        pid = st.pid[ident]
        sample = {'namespec': 'g:p', 'pid': pid, 'now': st.now, 'proc_work': st.work, 'proc_memory': 3.5,
                  'nb_cores': 2}
        res = st.comp.push_statistics(ident, sample)
        errs = []
        produced = {r['target_period']: r for r in res}
        holder = st.comp.holder_map.get('g:p')
        if pid == 0:
            if holder is not None and ident in holder.instance_map:
                errs.append({'clause': 'stopped-process-history-kept', 'signature': 'C20:proc-stopped-kept'})
            for period in self.periods:
                st.ref.pop((ident, period), None)
            if produced:
                errs.append({'clause': 'period-gate', 'signature': 'C20:proc-gate:point-for-stopped'})
        else:
            for period in self.periods:
                ref = st.ref.get((ident, period))
                if ref is not None and ref[0] != pid:
                    ref = None   # restarted under a new pid: the history restarts
                expect = ref is not None and sample['now'] - ref[1]['now'] >= period
                if bool(period in produced) != expect:
                    errs.append({'clause': 'period-gate',
                                 'signature': f'C20:proc-gate:{"missing" if expect else "early"}', 'period': period})
                if period in produced and ref is not None:
                    r = produced[period]
                    want = 100.0 * (sample['proc_work'] - ref[1]['proc_work']) / (sample['now'] - ref[1]['now'])
                    if abs(r['cpu'] - want) > 1e-9 or r['pid'] != pid:
                        errs.append({'clause': 'integrated-cpu', 'signature': 'C20:proc-integrated', 'got': r['cpu'],
                                     'want': want})
                    if not math.isfinite(r['cpu']) or r['cpu'] < 0:
                        errs.append({'clause': 'cpu-range', 'signature': 'C20:proc-cpu-range', 'got': r['cpu']})
                if ref is None or expect:
                    st.ref[(ident, period)] = (pid, sample)
        # invariants
        if holder is not None:
            for idt, (hpid, insts) in holder.instance_map.items():
                for period, inst in insts.items():
                    if not (len(inst.times) == len(inst.cpu) == len(inst.mem)):
                        errs.append({'clause': 'alignment', 'signature': 'C20:proc-align',
                                     'lens': [len(inst.times), len(inst.cpu), len(inst.mem)]})
                    if len(inst.times) > self.histo:
                        errs.append({'clause': 'depth', 'signature': 'C20:proc-depth', 'len': len(inst.times)})
        elif any(p for p in [pid]):
            errs.append({'clause': 'running-process-without-history', 'signature': 'C20:proc-no-holder'})
        return errs

    def key(self, st):
        parts = []
        holder = st.comp.holder_map.get('g:p')
        if holder is not None:
            for idt, (hpid, insts) in sorted(holder.instance_map.items()):
                for period, inst in sorted(insts.items()):
                    ref = inst.ref_stats
                    parts.append((idt, hpid == st.pid[idt], period, len(inst.times), len(inst.cpu), len(inst.mem),
                                  cap(st.now - ref['now'], 2 * period + 1) if ref else None,
                                  sign(st.work - ref['proc_work']) if ref else None))
        refs = tuple(sorted((k, v[0] == st.pid[k[0]], cap(st.now - v[1]['now'], 30)) for k, v in st.ref.items()))
        return (tuple(parts), tuple(sorted((k, v == 0) for k, v in st.pid.items())), refs, st.b_pushes)

    def nontrivial(self, hist):
        pushes = [i for i, o in enumerate(hist) if o[0] == 'push']
        return len(pushes) >= 2 and any(o[0] != 'push' for o in hist[pushes[0]:pushes[-1]])


# ---------------------------------------------------------------------------------------------
# process statistics collector -> compiler (the pid 0 sample that drops a history comes from the collector)
# ---------------------------------------------------------------------------------------------
import supvisors.statscollector as _sc


class _Conn:
    def __init__(self):
        self.sent = []

    def send(self, x):
        self.sent.append(x)


class _FakePs:
    """psutil.Process stand-in: which pids exist is decided by the harness."""
    alive = set()

    def __init__(self, pid=None):
        if pid is None:
            pid = 1
        if pid != 1 and pid not in _FakePs.alive:
            raise _sc.psutil.NoSuchProcess(pid)
        self.pid = pid


class CollState:
    pass


class CollectorSpec(Spec):
    """Real ProcessStatisticsCollector feeding a real ProcStatisticsCompiler; psutil answers are the alphabet."""

    def __init__(self, period=5.0):
        self.period = period
        self.name = f'C20-collector-{period}'

    def new(self):
        st = CollState()
        _FakePs.alive = set()
        _sc.psutil.Process = _FakePs
        st.conn = _Conn()
        st.coll = _sc.ProcessStatisticsCollector(st.conn, self.period, True, 1)
        st.comp = ProcStatisticsCompiler(_Opt((5.0,), 3), _Log())
        st.pid = 0          # pid of g:p as Supervisor knows it (0 = stopped)
        st.next_pid = 100
        st.now = 100.0
        st.answer = 'ok'
        st.work = 1.0
        return st

    def ops(self, cfg=None):
        return [('start',), ('stop',), ('dt', 5.0), ('collect', 'ok'), ('collect', 'oserror'), ('collect', 'dead')]

    def enabled(self, st, op):
        if op == ('start',):
            return st.pid == 0
        if op == ('stop',):
            return st.pid != 0
        return True

    def apply(self, st, op):
        _w._FALLBACK[0] = st.now
        _sc.psutil.Process = _FakePs
        _FakePs.alive = {st.pid} if st.pid else set()
        k = op[0]
        if k == 'dt':
            st.now += op[1]
            return []
        if k == 'start':
            st.next_pid += 1
            st.pid = st.next_pid
            _FakePs.alive = {st.pid}
            st.coll.update_process_list('g:p', st.pid)      # what the listener does on a RUNNING event
        elif k == 'stop':
            st.pid = 0
            _FakePs.alive = set()
            st.coll.update_process_list('g:p', 0)           # what the listener does on a stopped-like event
        else:
            answer = op[1]
            st.work += 0.5

            def stats(proc, get_children=True, _a=answer, _st=st):
                if proc.pid == 1:
                    return (1.0, 1.0)
                if _a == 'dead' or proc.pid not in _FakePs.alive:
                    return None
                if _a == 'oserror':
                    return ()
                return (_st.work, 2.5)
            _sc.instant_process_statistics = stats
            st.coll.collect_processes_statistics()
        errs = []
        for msg in st.conn.sent:
            if msg.get('namespec') != 'g:p':
                continue
            sample = dict(msg)
            sample.setdefault('nb_cores', 2)
            st.comp.push_statistics('A', sample)
        st.conn.sent = []
        holder = st.comp.holder_map.get('g:p')
        kept = holder is not None and 'A' in holder.instance_map
        if st.pid == 0 and kept and k == 'stop':
            errs.append({'clause': 'stopped-process-history-kept', 'signature': 'C20:collector:stopped-kept',
                         'entries': len(st.coll.processes)})
        return errs

    def key(self, st):
        ent = [e for e in st.coll.processes if e['namespec'] == 'g:p']
        holder = st.comp.holder_map.get('g:p')
        kept = holder is not None and 'A' in holder.instance_map
        return (st.pid != 0, len(ent), ent[0]['process'].pid == st.pid if ent else None,
                cap(st.now - ent[0]['last'], 11) if ent else None, kept,
                cap(st.now - st.coll.supervisor_process['last'], 11))

    def nontrivial(self, hist):
        return any(o[0] == 'collect' for o in hist) and any(o[0] == 'stop' for o in hist)


def main():
    t = tier()
    out = Outcome('C20', 'exploration')
    plan = []
    depth = 9 if t == 'quick' else 40
    for periods in ((5.0,), (5.0, 10.0)):
        for histo in ((2,) if t == 'quick' else (1, 2, 3)):
            plan.append(HostSpec(periods, histo))
            plan.append(ProcSpec(periods, histo))
    if t == 'thorough':
        plan.append(HostSpec((5.0,), 10))
        plan.append(ProcSpec((5.0,), 10))
    plan.append(CollectorSpec(5.0))
    cap_s = int(os.environ.get('VERIF_CAP_S', '0')) or (110 if t == 'quick' else 600)
    results = run_specs(plan, lambda s: depth, lambda s: {'max_seconds': cap_s})
    cov = out.coverage
    cov.update({'evaluations': 0, 'distinct_nontrivial': 0, 'states': 0, 'transitions': 0, 'samples': [],
                'configurations': []})
    complete = True
    for spec, r in zip(plan, results):
        if r.error:
            print('HARNESS ERROR:', r.error)
            return 2
        cov['evaluations'] += r.transitions
        cov['transitions'] += r.transitions
        cov['states'] += r.states
        cov['distinct_nontrivial'] += r.nontrivial
        cov['samples'] += r.samples[:1]
        cov['configurations'].append({'spec': spec.name, 'depth_bound': depth, 'max_depth_reached': r.max_depth,
                                      'fixpoint_reached': r.fixpoint, 'capped': r.capped, 'states': r.states,
                                      'transitions': r.transitions, 'wall_s': round(r.wall, 1)})
        complete &= not r.capped
        for v, hist in r.violations:
            for _ in range(2):
                st = rebuild(spec, hist[:-1])
                errs = checked_apply(spec, st, hist[-1])
                assert v['signature'] in [e['signature'] for e in errs], 'violation did not reproduce'
            kind = 'host' if isinstance(spec, HostSpec) else 'collector' if isinstance(spec, CollectorSpec) else 'proc'
            out.report(v, {'driver': spec.name, 'config': {'periods': getattr(spec, 'periods', None),
                                                            'histo': getattr(spec, 'histo', None), 'kind': kind},
                           'events': [list(o) for o in hist]})
    cov['traces_validated_against_impl'] = cov['states']
    cov['rule'] = ('product BFS of the real ProcessStatisticsCollector (psutil answers: sample / OSError / dead process) feeding '
                   'the real compiler (a stopped process leaves no history); product BFS of the real Host/ProcStatisticsCompiler and a reference model of the period gate and of '
                   'the integrated values; alphabet: time steps (2.5 s = below the period, 5 s = the period; longer gaps by repetition), interface/disk/partition appearing and '
                   'vanishing, counters increasing / wrapping, cpu work / idle jiffies, pid change / pid 0, pushes for a '
                   'known and a never-seen instance; states merged on (history lengths per entity, key sets, capped time '
                   'since the reference sample, order relations of counters); non-trivial = two pushes with a change in '
                   'between')
    out.assumptions += ['number of CPU cores of a host constant within a stream',
                        'merging on the abstract key is sound because the compilers branch only on the relations kept in it']
    return out.finish(exhaustive=complete)


def replay(payload):
    cfg = payload['config']
    spec = CollectorSpec(5.0) if cfg['kind'] == 'collector' else \
        (HostSpec if cfg['kind'] == 'host' else ProcSpec)(cfg['periods'], cfg['histo'])
    hist = [tuple(o) for o in payload['events']]
    st = rebuild(spec, hist[:-1])
    errs = checked_apply(spec, st, hist[-1])
    print('history:', hist)
    print('oracle:', errs)
    if payload.get('signature') in [e['signature'] for e in errs]:
        print(f'VIOLATION property=C20 replay=(reproduced) signature={payload["signature"]}')
        return 1
    print('not reproduced on this tree')
    return 0
