"""C15 - application state and operational status follow their definition (bounded-exhaustive inputs)."""
import ast
import builtins
import itertools
import os
import re

from .. import world as _w   # virtual clock
from ..report import Outcome, tier

from supvisors.application import ApplicationStatus, ApplicationRules
from supvisors.process import ProcessStatus, ProcessRules
from supvisors.ttypes import ApplicationStatusParseError

STOPPED, STARTING, RUNNING, BACKOFF, STOPPING, EXITED, FATAL, UNKNOWN = 0, 10, 20, 30, 40, 100, 200, 1000
ALL_STATES = [STOPPED, STARTING, RUNNING, BACKOFF, STOPPING, EXITED, FATAL, UNKNOWN]
RUNNING_LIKE = (STARTING, RUNNING, BACKOFF)


class _Log:
    level = 50

    def __getattr__(self, n):
        if n.startswith('__'):
            raise AttributeError(n)
        return lambda *a, **k: None


class _Sv:
    def __init__(self):
        self.logger = _Log()
        self.mapper = type('M', (), {'instances': {'A': 1}})()
        self.supervisor_data = None


SV = _Sv()


# ---------------------------------------------------------------------------------------------
# reference definitions (from the statement)
# ---------------------------------------------------------------------------------------------
def displayed(pv):
    state, expected, forced = pv['state'], pv['expected'], pv['forced']
    return state if forced is None else forced


def ref_state(procs):
    ds = [displayed(p) for p in procs.values()]
    if STOPPING in ds:
        return 'STOPPING'
    if STARTING in ds or BACKOFF in ds:
        return 'STARTING'
    if RUNNING in ds:
        return 'RUNNING'
    return 'STOPPED'


def failing(pv):
    d = displayed(pv)
    return d in (FATAL, UNKNOWN) or (d == EXITED and not pv['expected'])


def ref_required(procs, managed):
    """(major, acceptable minors)."""
    app_state = ref_state(procs)
    major = False
    minor = False
    minor_open = False   # statement silent: non-required process STOPPED while the application is not
    for pv in procs.values():
        d = displayed(pv)
        if failing(pv):
            if pv['required']:
                major = True
            elif managed:
                minor = True
        elif d == STOPPED and app_state != 'STOPPED':
            if pv['required']:
                major = True
            elif managed:
                minor_open = True
    if major:
        return True, {False}
    if minor:
        return False, {True}
    return False, ({False, True} if minor_open else {False})


def ok_status(pv):
    d = displayed(pv)
    return d in RUNNING_LIKE or (d == EXITED and pv['expected'])


class _Bad(Exception):
    pass


def ref_formula(src, procs):
    """Major failure = negation of the formula over names/patterns with and/or/not/any/all; anything else,
    or a pattern matching nothing, is a major failure."""
    try:
        tree = ast.parse(src)
    except SyntaxError:
        return 'parse-error'
    if len(tree.body) != 1 or not isinstance(tree.body[0], ast.Expr):
        return 'parse-error' if len(tree.body) != 1 else True
    node = tree.body[0].value

    def ev(n):
        if isinstance(n, ast.Constant) and type(n.value) is str:
            if n.value in procs:
                return ok_status(procs[n.value])
            try:
                ms = [k for k in procs if re.match('^%s$' % n.value, k)]
            except re.error:
                raise _Bad
            if not ms:
                raise _Bad
            if len(ms) == 1:
                return ok_status(procs[ms[0]])
            return [ok_status(procs[k]) for k in ms]
        if (isinstance(n, ast.Call) and isinstance(n.func, ast.Name) and n.func.id in ('all', 'any')
                and len(n.args) == 1 and not n.keywords and not isinstance(n.args[0], ast.Starred)):
            v = ev(n.args[0])
            v = [v] if isinstance(v, bool) else v
            return all(v) if n.func.id == 'all' else any(v)
        if isinstance(n, ast.BoolOp):
            vs = [ev(x) for x in n.values]
            if any(not isinstance(v, bool) for v in vs):
                raise _Bad
            return all(vs) if isinstance(n.op, ast.And) else any(vs)
        if isinstance(n, ast.UnaryOp) and isinstance(n.op, ast.Not):
            v = ev(n.operand)
            if not isinstance(v, bool):
                raise _Bad
            return not v
        raise _Bad
    try:
        r = ev(node)
        if not isinstance(r, bool):
            raise _Bad
        return not r
    except _Bad:
        return True


# ---------------------------------------------------------------------------------------------
# real objects
# ---------------------------------------------------------------------------------------------
def make_app(procs, managed, formula=None, rules=None):
    if rules is None:
        rules = ApplicationRules(SV)
        rules.managed = managed
        if formula is not None:
            rules.status_formula = formula
    app = ApplicationStatus('app', rules, SV)
    for name, pv in procs.items():
        pr = ProcessRules(SV)
        pr.start_sequence = pv['seq']
        pr.required = pv['required']
        p = ProcessStatus('app', name, pr, SV)
        p._state = pv['state']
        p.expected_exit = pv['expected']
        p.forced_state = pv['forced']
        p.program_name = name
        app.add_process(p)
    app.update_sequences()
    return app


# ---------------------------------------------------------------------------------------------
# input spaces
# ---------------------------------------------------------------------------------------------
def proc_values(full):
    out = []
    forced_opts = [None, FATAL, STOPPED] if full else [None]
    for s in ALL_STATES:
        for exp in ([True, False] if s == EXITED else [True]):
            for f in forced_opts:
                for req in (False, True):
                    for seq in ((0, 1) if full else (1,)):
                        if req and seq == 0:
                            continue   # required without a start_sequence is dropped by the rules (C18)
                        out.append({'state': s, 'expected': exp, 'forced': f, 'required': req, 'seq': seq})
    return out


LEAVES = ['"p1"', '"p2"', '"q1"', '"p."', '"zz"', '".*"', '"q.*"']


def formulas(max_ops):
    """Every formula with at most max_ops operators over the leaves (commutative duplicates kept:
    the evaluator is not supposed to care)."""
    by_ops = {0: list(LEAVES)}
    for n in range(1, max_ops + 1):
        cur = []
        for a in by_ops[n - 1]:
            cur.append(f'not {a}')
            cur.append(f'all({a})')
            cur.append(f'any({a})')
        for i in range(0, n):
            j = n - 1 - i
            for a in by_ops[i]:
                for b in by_ops[j]:
                    if len(cur) > 200000:
                        break
                    cur.append(f'({a} and {b})')
                    cur.append(f'({a} or {b})')
        by_ops[n] = cur
    out = []
    for n in range(0, max_ops + 1):
        out += by_ops[n]
    return out


HOSTILE = ['"p1".upper()', 'any()', 'any("p1", "p2")', 'all(x for x in "p1")', 'lambda: 1', '"p1"[0]', '"p1" == "p2"',
           '1', 'b"p1"', 'f"{1}"', 'p1', '(x := "p1")', '__import__("os").system("true")', 'all(["p1"])', '"("', '""',
           '"p1"; "p2"', 'not 1', '-"p1"', 'any(*["p1"])', 'any(x="p1")', 'open("/tmp/verif-PWNED","w")',
           'print("p1")', 'all', 'any(any)', '"p1" if "p2" else "q1"', '[]', '{}', 'None', 'True', '...',
           'any.__call__("p1")', 'all("p1").real', '(lambda x: x)("p1")', 'any("p1") and eval("1")',
           'getattr("p1", "upper")()', '"p1" and "p1".strip()', '"[" or "p1"', 'not "*"', 'all("p1", *[])',
           'any("p1", **{})', 'compile("1", "", "eval")', 'exec("x=1")', '"p1" in "p1"', '"p1" + "p2"',
           'any(["p1", "p2"])', 'all(("p1",))', '"p1" or __import__("os")', 'min("p1")', 'str("p1")',
           '"(?P<n>p1)"', '"p1|p2"', '"\\\\"', '"p1" and any', 'import os', 'x = "p1"', 'del x', 'pass', '']


# ---------------------------------------------------------------------------------------------
# side-effect monitor
# ---------------------------------------------------------------------------------------------
_ALLOWED_EVAL = re.compile(r'^(all|any)\(\[(True|False)(, (True|False))*\]\)$')


class SideEffects:
    def __init__(self):
        self.calls = []
        self.saved = {}

    def __enter__(self):
        for name in ('eval', 'exec', '__import__', 'open', 'compile', 'print', 'getattr'):
            self.saved[name] = getattr(builtins, name)
        real_eval = self.saved['eval']
        calls = self.calls

        def eval_(src, *a, **k):
            if not (isinstance(src, str) and _ALLOWED_EVAL.match(src)):
                calls.append(('eval', str(src)[:80]))
            return real_eval(src, *a, **k)

        def mk(name):
            real = self.saved[name]

            def f(*a, **k):
                calls.append((name, str(a)[:80]))
                return real(*a, **k)
            return f
        builtins.eval = eval_
        for name in ('exec', 'open', 'print'):
            setattr(builtins, name, mk(name))
        real_compile = self.saved['compile']

        def compile_(src, filename, mode, flags=0, *a, **k):
            if not flags & 0x400:   # ast.PyCF_ONLY_AST: parsing only, nothing executable is produced
                calls.append(('compile', str(src)[:80]))
            return real_compile(src, filename, mode, flags, *a, **k)
        builtins.compile = compile_
        self.saved['os.system'] = os.system
        os.system = lambda *a, **k: calls.append(('os.system', str(a)[:80])) or 0
        return self

    def __exit__(self, *exc):
        for name in ('eval', 'exec', 'open', 'compile', 'print'):
            setattr(builtins, name, self.saved[name])
        os.system = self.saved['os.system']
        return False


def names_for(k):
    return ['p1', 'p2', 'q1'][:k]


def main():
    t = tier()
    out = Outcome('C15', 'exploration')
    evaluations = 0
    distinct = set()
    samples = []
    viol_seen = set()

    def report(v, case):
        if v['signature'] in viol_seen:
            return
        viol_seen.add(v['signature'])
        out.report(v, {'driver': 'C15', 'config': {}, 'events': [case]})

    # 1. state priority and required-based status: every vector of 1..3 processes
    for k in (1, 2, 3):
        vals = proc_values(full=(k <= 2))
        if k == 3 and t == 'quick':
            vals = [v for v in vals if v['state'] in (STOPPED, RUNNING, STARTING, STOPPING, EXITED, FATAL)]
        names = names_for(k)
        for managed in (True, False):
            for combo in itertools.product(vals, repeat=k):
                procs = dict(zip(names, combo))
                case = {'kind': 'required', 'managed': managed, 'procs': procs}
                evaluations += 1
                try:
                    app = make_app(procs, managed)
                    app.update()
                    got = (app.state.name, app.major_failure, app.minor_failure)
                except Exception as exc:
                    report({'clause': 'exception', 'signature': f'C15:exception:{type(exc).__name__}:required',
                            'exc': repr(exc)[:200]}, case)
                    continue
                want_state = ref_state(procs)
                major, minors = ref_required(procs, managed)
                distinct.add((got, k, managed))
                if got[0] != want_state:
                    report({'clause': 'application-state', 'signature': f'C15:state:{want_state}-expected',
                            'got': got[0], 'want': want_state}, case)
                if got[1] != major:
                    report({'clause': 'major-failure', 'signature': f'C15:major:{major}-expected', 'got': got[1],
                            'want': major}, case)
                elif got[2] not in minors:
                    report({'clause': 'minor-failure', 'signature': f'C15:minor:{sorted(minors)}-expected',
                            'got': got[2], 'want': sorted(minors)}, case)
                if len(samples) < 2 and k == 2 and got[1]:
                    samples.append(case)

    # 2. formulas: well-formed grammar x state vectors
    max_ops = 2 if t == 'quick' else 3
    fl = formulas(max_ops)
    if t == 'thorough' and len(fl) > 60000:
        fl = fl[:60000]
    base_vals = [{'state': s, 'expected': e, 'forced': f, 'required': False, 'seq': 1}
                 for s, e, f in [(RUNNING, True, None), (STOPPED, True, None), (EXITED, True, None),
                                 (EXITED, False, None), (FATAL, False, None), (RUNNING, True, FATAL),
                                 (STARTING, True, None)]]
    vectors = [dict(zip(names_for(3), c)) for c in itertools.product(base_vals, repeat=3)]
    step = 5 if t == 'quick' else 1
    trees = {}
    for fi, f in enumerate(fl):
        rules = ApplicationRules(SV)
        rules.managed = True
        try:
            rules.status_formula = f
        except ApplicationStatusParseError:
            report({'clause': 'well-formed-formula-rejected', 'signature': 'C15:formula-rejected', 'formula': f},
                   {'kind': 'formula', 'formula': f})
            continue
        for vi in range(fi % step, len(vectors), step):
            procs = vectors[vi]
            evaluations += 1
            case = {'kind': 'formula', 'formula': f, 'procs': procs}
            try:
                app = make_app(procs, True, rules=rules)
                app.update()
                got = app.major_failure
            except Exception as exc:
                report({'clause': 'exception', 'signature': f'C15:exception:{type(exc).__name__}:formula',
                        'exc': repr(exc)[:200]}, case)
                continue
            want = ref_formula(f, procs)
            distinct.add((f if len(f) < 40 else hash(f), got))
            if got != want:
                report({'clause': 'formula-result', 'signature': f'C15:formula:{want}-expected', 'got': got,
                        'want': want}, case)
            if len(samples) < 4 and fi > 100 and got:
                samples.append(case)

    # 2b. histories: the status after a process has been removed / added equals the status of an application built from
    #     scratch with the resulting processes (differential oracle, no expected value written by hand)
    hist_formulas = [None, '"p1"', 'any("p.")', 'all("p.") or "q1"', '"q1" and not "p2"']
    hvals = [{'state': s, 'expected': e, 'forced': f, 'required': r, 'seq': q}
             for s, e, f in [(RUNNING, True, None), (STOPPED, True, None), (EXITED, False, None), (FATAL, False, None),
                             (RUNNING, True, STOPPED)]
             for r, q in ((False, 1), (True, 1), (False, 0))]
    for f in hist_formulas:
        for combo in itertools.product(hvals, repeat=3):
            procs = dict(zip(names_for(3), combo))
            for gone in names_for(3):
                evaluations += 1
                case = {'kind': 'removal', 'formula': f, 'procs': procs, 'removed': gone}
                try:
                    app = make_app(procs, True, formula=f)
                    app.update()
                    app.remove_process(gone)
                    got = (app.state.name, app.major_failure, app.minor_failure)
                    rest = {k_: v_ for k_, v_ in procs.items() if k_ != gone}
                    fresh = make_app(rest, True, formula=f)
                    fresh.update()
                    want = (fresh.state.name, fresh.major_failure, fresh.minor_failure)
                except Exception as exc:
                    report({'clause': 'exception', 'signature': f'C15:exception:{type(exc).__name__}:removal',
                            'exc': repr(exc)[:200]}, case)
                    continue
                distinct.add(('removal', f, got))
                if got != want:
                    what = [n for n, a_, b_ in zip(('state', 'major', 'minor'), got, want) if a_ != b_]
                    report({'clause': 'status-after-removal-differs-from-fresh-application',
                            'signature': 'C15:after-removal:' + '+'.join(what), 'got': got, 'want': want}, case)

    # 3. hostile formulas: totality and absence of side effects
    procs = vectors[0]
    for f in HOSTILE:
        evaluations += 1
        case = {'kind': 'hostile', 'formula': f, 'procs': procs}
        with SideEffects() as fx:
            rules = ApplicationRules(SV)
            rules.managed = True
            try:
                try:
                    rules.status_formula = f
                    parsed = True
                except ApplicationStatusParseError:
                    parsed = False
                if parsed:
                    app = make_app(procs, True, rules=rules)
                    app.update()
                    got = app.major_failure
                else:
                    got = 'rejected'
            except Exception as exc:
                got = ('EXC', type(exc).__name__)
        distinct.add(('hostile', f, str(got)))
        if fx.calls:
            report({'clause': 'side-effect', 'signature': f'C15:side-effect:{fx.calls[0][0]}', 'calls': fx.calls[:3]}, case)
        if isinstance(got, tuple):
            report({'clause': 'evaluation-raises', 'signature': f'C15:hostile-exception:{got[1]}', 'formula': f}, case)
            continue
        if got == 'rejected':
            continue   # refused when the rules are loaded: no formula, legacy status applies
        want = ref_formula(f, procs)
        if f in ('any("p1", "p2")', 'all("p1", *[])', 'any("p1", **{})'):
            continue   # extra (possibly empty) arguments after a valid one: the statement does not say
        if want == 'parse-error':
            continue
        if got != want:
            report({'clause': 'hostile-formula-result', 'signature': f'C15:hostile-result:{want}-expected',
                    'formula': f, 'got': got, 'want': want}, case)
    if os.path.exists('/tmp/verif-PWNED'):
        os.unlink('/tmp/verif-PWNED')
        report({'clause': 'side-effect', 'signature': 'C15:side-effect:file-created'}, {'kind': 'hostile'})

    cov = out.coverage
    cov['evaluations'] = evaluations
    cov['distinct_nontrivial'] = len(distinct)
    cov['rule'] = ('(1) every vector of 1-3 processes over displayed state (8 states, expected/unexpected exit, forced '
                   'FATAL/STOPPED), required flag, start sequence 0/1, managed/unmanaged, against the reference state '
                   f'priority and required-based status; (2) every formula with <= {max_ops} operators over 7 leaves '
                   '(names, unknown name, patterns matching 0/1/2/3 processes) x state vectors against the reference '
                   f'evaluator; (3) {len(HOSTILE)} hostile formulas with eval/exec/open/compile/print/os.system wrapped. '
                   'distinct = distinct (result, shape) pairs / (formula, result) pairs')
    cov['samples'] = samples[:4]
    cov['formulas'] = len(fl)
    cov['hostile'] = len(HOSTILE)
    out.assumptions += ['any("p1", "p2") (extra positional argument) is not judged',
                        'minor failure under a formula is not defined by the statement and not compared',
                        'a non-required process STOPPED while the application runs: both minor values accepted']
    return out.finish(exhaustive=True)


def replay(payload):
    case = payload['events'][0]
    print('case:', case)
    procs = case.get('procs')
    try:
        if case['kind'] == 'required':
            app = make_app(procs, case['managed'])
        else:
            app = make_app(procs, True, formula=case['formula'])
        app.update()
        print('got:', app.state.name, app.major_failure, app.minor_failure)
    except Exception as exc:
        print('exception:', repr(exc))
    return 0
