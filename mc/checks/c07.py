"""C07 - silent instances are detected in bounded time, live ones are never declared lost."""
import os

from ..drivers.cluster import Cluster
from ..report import tier
from .e1 import run_e1, replay_e1
from .membership import cfg, kwargs_of

DRIVER = Cluster('C07', ['C07'])


def configs(t):
    q = [
        cfg(2, 4, 2, cost=3),
        cfg(2, 5, 1, F=1, faults=['crash'], warm=5, cost=4),
        cfg(2, 5, 1, F=1, faults=['crash'], warm=5, fence=True, cost=4),
        cfg(2, 6, 1, F=1, faults=['crash'], warm=5, inact=3, cost=5),
        cfg(2, 5, 1, F=1, faults=['crash', 'restart'], warm=5, cost=6),
        cfg(2, 5, 1, F=1, faults=['crash', 'restart'], warm=5, fence=True, cost=6),
        cfg(2, 4, 1, F=1, faults=['isolate'], warm=5, cost=9),
        cfg(2, 4, 1, F=1, faults=['isolate'], warm=5, fence=True, cost=7),
        cfg(2, 5, 1, F=1, faults=['stall'], warm=5, cost=5),
        cfg(2, 6, 1, F=1, faults=['stall'], warm=5, inact=3, cost=6),
        cfg(3, 4, 0, F=1, faults=['crash'], warm=6, cost=6),
        cfg(3, 4, 0, F=1, faults=['crash'], warm=6, fence=True, cost=6),
        cfg(3, 2, 0, F=1, faults=['isolate'], warm=6, crashable=[0, 2], cost=8),
        cfg(3, 2, 0, F=1, faults=['crash', 'restart'], warm=6, crashable=[0, 2], cost=8),
        cfg(2, 5, 1, rules=True, F=1, faults=['crash'], cost=5),
        cfg(2, 5, 1, rules=True, F=1, faults=['crash'], fence=True, cost=5),
        cfg(3, 4, 0, late=[2], warm=6, cost=4),
        # a late joiner is held CHECKED while the distribution lasts (slow start) and is lost in that state
        cfg(3, 5, 0, late=[2], rules=True, slow_start=True, F=1, faults=['crash'], crashable=[2], warm=4, cost=7),
        # the instance that runs a process is lost after a third instance, which knows the program too, has joined
        # (its report of the process is newer than the runner's): the process must still end FATAL and unlisted
        cfg(3, 4, 0, late=[2], rules=True, F=1, faults=['crash'], crashable=[0], warm=6, prejoin=5, cost=9),
        # slow handshake of a late joiner (late reply, TICK on the wire) under auto_fence
        dict(cfg(2, 4, 0, faults=['hang', 'lag'], fence=True, late=[1], warm=6, cost=6), hangable=[[1, 0]], laggable=[[0, 1]]),
    ]
    if t == 'quick':
        return q
    th = []
    for c in q:
        c2 = dict(c)
        c2['D'] = min(2, c['D'] + 1)
        c2['T'] = c['T'] + 1
        if c['n'] == 2 and c['F']:
            c2['F'] = 2
        c2['name'] = c['name'] + '-deep'
        c2['cost'] = c['cost'] * 10
        th.append(c2)
    return q + th


# the same monitor over worlds with process activity: instances lost while their processes are stopping / starting
from ..drivers.jobs import Jobs


class LossJobs(Jobs):
    name = 'lossjobs'


JDRIVER = LossJobs('C07', ['C07'])


def job_configs(t):
    from . import c09, c05
    out = [dict(c, name='jobs-' + c['name']) for c in c09.configs('quick') if 'loss-while-stopping' in c['name']]
    out += [dict(c, name='jobs-' + c['name'], strategy=c['strategy']) for c in c05.configs('quick')
            if c['name'] == 'duplicate-INFANTICIDE-loss-while-stopping']
    return out


def main():
    t = tier()
    cfgs = configs(t)
    cap = int(os.environ.get('VERIF_CAP_S', '0')) or (None if t == 'quick' else 2400)
    jcfgs = job_configs(t)
    for c in cfgs + jcfgs:
        c['max_seconds'] = cap
    out, complete = run_e1(
        'C07', [(DRIVER, cfgs, kwargs_of('none')),
                (JDRIVER, jcfgs, lambda c: {'deviations': c['D'], 'closure': 'none', 'max_seconds': c.get('max_seconds')})],
        rule='explicit-state exploration of N real Supvisors cores under crashes, restarts (also quicker than the '
             'detection delay), isolations/rejoins and directed stalls at every point of the tick phase, for '
             'inactivity_ticks in {2,3} and both auto_fence settings; a monitor per (observer, peer) counts observer-local '
             'ticks since the last received peer tick and judges accuracy, completeness, invalidation, FATAL marking of '
             'lost processes, the fencing rule and every instance-state edge; the same monitor over job worlds in which an instance '
             'is lost while its processes are STOPPING (stop sequences, conciliation)',
        assumptions=['accuracy is judged only while the trace satisfies the premise of the statement (a peer tick within '
                     'every window of inactivity_ticks consecutive local ticks, no restart, no failed RPC since the '
                     'handshake started)',
                     'the fencing rule is not judged while the Master is in ELECTION or is the lost instance itself',
                     'equal tick rates with at most one tick of drift; N <= 3'])
    return out.finish(exhaustive=complete)


def replay(payload):
    return replay_e1(payload, {'cluster': DRIVER, 'lossjobs': JDRIVER})
