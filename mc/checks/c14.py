"""C14 - placement obeys the starting strategy and the distribution rule."""
import itertools
import multiprocessing
import os

from ..refmodels import placement_ref as ref
from ..report import Outcome, tier
from ..rulesgen import rules_xml, groups_of
from ..world import World, make_scenario, PS

from supvisors.strategy import get_supvisors_instance
from supvisors.ttypes import StartingStrategies

NODE_OF = [0, 0, 1, 1]
LD = {'name': 'ld', 'programs': [{'name': 'l30', 'expected_loading': 30}, {'name': 'l60', 'expected_loading': 60}]}


PROG_LOAD = {'app:a': 40, 'app:b': 20, 'app:c': 30}


def app_rules(dist, ids, loads=(40, 20, 30)):
    progs = [{'name': 'a', 'start_sequence': 1, 'expected_loading': loads[0]},
             {'name': 'b', 'start_sequence': 1, 'expected_loading': loads[1]},
             {'name': 'c', 'start_sequence': 2, 'expected_loading': loads[2]}]
    if dist == 'ALL_INSTANCES':
        # the identifiers of the application element only matter to the SINGLE_* rules
        return {'name': 'app', 'distribution': dist, 'starting_strategy': 'CONFIG',
                'programs': [dict(p, identifiers=ids) for p in progs]}
    return {'name': 'app', 'distribution': dist, 'identifiers': ids, 'starting_strategy': 'CONFIG', 'programs': progs}


def settle(w):
    for e in w.proc_events(('run', 'stopped')):
        w.apply(e)


def build(loads, apps, groups=None, n=4, node_of=NODE_OF, reidentify=None):
    """A cluster in OPERATION whose instance i carries `loads[i]` (0/30/60/90) of running load processes."""
    sc = make_scenario(n, config={'synchro_options': 'LIST', 'synchro_timeout': '20'}, rules=rules_xml(apps),
                       groups=groups if groups is not None else groups_of(apps), node_of=node_of)
    w = World(sc)
    w.start_all()
    w.round_robin(7)
    if reidentify is not None:
        # an instance restarts and goes through the handshake again before the loads are installed
        w.apply(('crash', reidentify))
        w.round_robin(5)
        w.apply(('restart', reidentify))
        w.round_robin(8)
        assert all(s.fsm.state.name == 'OPERATION' for s in w.sups), w.summary()
    for i, ld in enumerate(loads):
        for name, val in (('l30', 30), ('l60', 60)):
            if ld in (val, 90):
                w.apply(('ustart', i, 'ld:' + name))
                w.drain()
                w.apply(('proc', i, 'ld:' + name, 'run'))
                w.drain()
    w.drain_observations()
    return w


def views(w, m):
    idents = list(w.idents)
    inst_load = {i: m.context.instances[i].get_load() for i in idents}
    running = set(m.context.running_identifiers())
    node_of = {w.idents[k]: w.scenario['node_of'][k] for k in range(w.n)}
    return idents, inst_load, running, node_of


# -- part 1: single placement decisions ------------------------------------------------------------
def part1(arg):
    loads_list, reidentify = arg
    n = 0
    bad = []
    distinct = set()
    sample = None
    for loads in loads_list:
        w = build(loads, [LD], reidentify=reidentify)
        for requester in (0, 2):
            m = w.sups[requester]
            idents, inst_load, running, node_of = views(w, m)
            assert [inst_load[i] for i in idents] == list(loads), (inst_load, loads)
            for k in (1, 2, 3, 4):
                for cands in itertools.permutations(idents, k):
                    if k == 4 and cands[0] > cands[1]:
                        continue
                    # pending requests: none / one / one per node / two on the two instances of one node
                    for req in ({}, {idents[1]: 30}, {idents[2]: 30, idents[0]: 30}, {idents[0]: 30, idents[1]: 30},
                                {idents[2]: 40, idents[3]: 30}):
                        for load in (0, 40, 70, 100):
                            for st in StartingStrategies:
                                got = get_supvisors_instance(m, st, list(cands), load, dict(req))
                                want = ref.acceptable(st.name, list(cands), running, inst_load, req, node_of, load,
                                                      m.ident)
                                n += 1
                                distinct.add((st.name, got is None, len(want), load, k))
                                if got not in want:
                                    bad.append({'clause': 'single-placement',
                                                'signature': f'C14:placement:{st.name}' + ('' if reidentify is None else ':after-restart'),
                                                'reidentified': reidentify,
                                                'loads': loads, 'requester': requester, 'candidates': cands,
                                                'requests': req, 'load': load, 'got': got, 'want': sorted(map(str, want))})
                                elif sample is None and len(want) == 1 and got and load == 40 and k == 3:
                                    sample = {'loads': loads, 'strategy': st.name, 'candidates': cands, 'requests': req,
                                              'load': load, 'chosen': got}
    return n, bad[:5], distinct, sample


# -- part 2: whole-application placement --------------------------------------------------------------
def part2(job):
    loads, dist, st, requester, ids, knows = job
    apps = [LD, app_rules(dist, ids)]
    groups = []
    for i in range(4):
        g = groups_of(apps)
        if i in knows.get('lack_b', ()):
            g['app'] = {k: v for k, v in g['app'].items() if k != 'b'}
        groups.append(g)
    w = build(loads, apps, groups)
    if knows.get('exited'):
        # the application has run before: its programs ended on their own and are EXITED, not STOPPED
        for ns in ('app:a', 'app:b', 'app:c'):
            w.apply(('ustart', 0, ns))
            w.drain()
            w.apply(('proc', 0, ns, 'run'))
            w.drain()
            w.apply(('proc', 0, ns, 'exit_bad'))
            w.drain()
        w.round_robin(1)
        w.drain_observations()
    m = w.sups[requester]
    idents, inst_load, running, node_of = views(w, m)
    res = w.user_rpc(requester, 'start_application', (st, 'app', False))
    errs = [dict(e) for e in w.faults]
    targets = {}
    order = []      # (namespec, target) in the order of the requests
    obs = w.drain_observations()
    for _ in range(9):
        for e in obs['emitted']:
            if e['req'] == 'START_PROCESS':
                targets.setdefault(e['args'][0], []).append(w.idents[e['dst']])
                order.append((e['args'][0], w.idents[e['dst']]))
        w.drain()
        settle(w)
        w.drain()
        w.round_robin(1, settle=settle)
        obs = w.drain_observations()
    # recompute from the whole run
    out = []
    sig_base = f'{dist}:{st}'
    if res[0] == 'exc':
        return job, [], targets, res   # internal error: judged by C16
    # permitted instances per the application's rule
    if ids == '*':
        permitted = list(idents)
    else:
        permitted = [w.idents[int(x[-1]) - 1] if x.startswith('#n') else x for x in ids.split(',')]
        permitted = [w.idents[k] for k in range(4) if w.idents[k] in permitted or f'10.0.0.{NODE_OF[k]+1}:{25000+k}' in permitted]
    # the same in the order DECLARED by the rules (the CONFIG order)
    declared = list(idents) if ids == '*' else [x for x in ids.split(',') if x in idents]
    assert set(declared) == set(permitted), (declared, permitted)

    def per_process(cands_of, label, plan_time=False):
        """Every request goes where the strategy says, given the candidates in declared order, the load table at
        that time and the requests still pending (processes of the same sub-sequence requested just before)."""
        errs2 = []
        base = dict(inst_load)
        pending = {}
        seq = {'app:a': 1, 'app:b': 1, 'app:c': 2}
        current = 1
        for ns, tgt in order:
            if seq[ns] != current:
                # the former sub-sequence is RUNNING: its load is in the table now
                for k, v in pending.items():
                    base[k] += v
                pending, current = {}, seq[ns]
            cands = cands_of(ns)
            want = ref.acceptable(st, cands, running, base, pending, node_of, PROG_LOAD[ns], m.ident)
            if plan_time:
                # SINGLE_NODE plans every process before the first request is made: the choice may also be the one
                # of the load table of that time (the statement does not say when the choice is made)
                want = want | ref.acceptable(st, cands, running, inst_load, {}, node_of, PROG_LOAD[ns], m.ident)
            if tgt not in want:
                errs2.append({'clause': 'per-process-placement', 'signature': f'C14:{label}:process-choice:{st}',
                              'process': ns, 'target': tgt, 'want': sorted(map(str, want)), 'candidates': cands,
                              'load_table': base, 'pending': dict(pending), 'order': order})
                break
            pending[tgt] = pending.get(tgt, 0) + PROG_LOAD[ns]
        return errs2
    knows_all = [i for k, i in enumerate(idents) if k not in knows.get('lack_b', ())]
    app_load = 40 + 20 + 30
    flat = [(ns, t) for ns, ts in targets.items() for t in ts]
    if dist == 'SINGLE_INSTANCE':
        cands = [i for i in declared if i in knows_all]
        want = ref.acceptable(st, cands, running, inst_load, {}, node_of, app_load, m.ident)
        used = {t for _, t in flat}
        if want == {None}:
            if used:
                out.append({'clause': 'single-instance-no-room', 'signature': f'C14:single-instance:sent-without-room:{st}',
                            'targets': targets})
        else:
            if len(used) > 1:
                out.append({'clause': 'single-instance-spread', 'signature': f'C14:single-instance:spread:{st}',
                            'targets': targets})
            elif used and not (used <= want):
                out.append({'clause': 'single-instance-choice', 'signature': f'C14:single-instance:choice:{st}',
                            'targets': targets, 'want': sorted(want)})
            elif not used:
                out.append({'clause': 'single-instance-nothing-sent', 'signature': f'C14:single-instance:none:{st}',
                            'want': sorted(want)})
    elif dist == 'ALL_INSTANCES':
        out += per_process(lambda ns: [i for i in declared if ns != 'app:b' or i in knows_all], 'all-instances')
    elif dist == 'SINGLE_NODE':
        used_nodes = {node_of[t] for _, t in flat}
        if len(used_nodes) == 1:
            nd0 = next(iter(used_nodes))
            out += per_process(lambda ns: [i for i in declared if node_of[i] == nd0
                                           and (ns != 'app:b' or i in knows_all)], 'single-node', plan_time=True)
        if len(used_nodes) > 1:
            out.append({'clause': 'single-node-spread', 'signature': f'C14:single-node:spread:{st}', 'targets': targets})
        for ns, t in flat:
            if t not in permitted:
                out.append({'clause': 'single-node-not-permitted', 'signature': f'C14:single-node:not-permitted:{st}',
                            'process': ns, 'target': t, 'permitted': permitted})
        # the node must be able to carry the whole start sequence
        nl = ref.node_loads(inst_load, {}, node_of)
        for nd in used_nodes:
            if nl[nd] + app_load > 100:
                out.append({'clause': 'single-node-overload', 'signature': f'C14:single-node:overload:{st}',
                            'node': nd, 'node_load': nl[nd], 'application_load': app_load})
        # node choice follows the strategy (node of an acceptable instance for the whole application load)
        node_cands = [i for i in permitted if any(j in knows_all or True for j in idents)]
        # a node is a solution when every program has an instance of the node that knows it
        sol_nodes = set()
        for nd in set(node_of.values()):
            members = [i for i in permitted if node_of[i] == nd]
            if members and any(i in knows_all for i in members):
                sol_nodes.add(nd)
        cands = [i for i in declared if node_of[i] in sol_nodes]
        want = ref.acceptable(st, cands, running, inst_load, {}, node_of, app_load, m.ident)
        want_nodes = {node_of[i] for i in want if i is not None}
        if want == {None}:
            if used_nodes:
                out.append({'clause': 'single-node-no-room', 'signature': f'C14:single-node:sent-without-room:{st}',
                            'targets': targets})
        elif used_nodes and not (used_nodes <= want_nodes):
            out.append({'clause': 'single-node-choice', 'signature': f'C14:single-node:choice:{st}',
                        'used': sorted(used_nodes), 'want': sorted(want_nodes), 'targets': targets})
    return job, out, targets, res


def main():
    t = tier()
    out = Outcome('C14', 'exploration')
    all_loads = list(itertools.product([0, 30, 60], repeat=4))
    loads_list = all_loads
    workers = int(os.environ.get('VERIF_WORKERS', '16'))
    chunks = [loads_list[i::workers] for i in range(workers)]
    ctx = multiprocessing.get_context('fork')
    with ctx.Pool(workers) as pool:
        re_loads = [l for k, l in enumerate(all_loads) if k % (9 if t == 'quick' else 2) == 0]
        re_chunks = [re_loads[i::workers] for i in range(workers)]
        r1 = pool.map(part1, [(c, None) for c in chunks if c] + [(c, 1) for c in re_chunks if c])
        jobs = []
        loads2 = [(0, 0, 0, 0), (30, 0, 0, 0), (0, 0, 60, 0), (60, 30, 0, 0), (30, 30, 30, 30), (0, 60, 0, 30),
                  (90, 0, 0, 30), (0, 0, 90, 0), (30, 0, 60, 60)]
        if t == 'thorough':
            loads2 = [l for k, l in enumerate(all_loads) if k % 2 == 0]
        for loads in loads2:
            for dist in ('SINGLE_INSTANCE', 'SINGLE_NODE', 'ALL_INSTANCES'):
                for st in ref.STRATEGIES:
                    for requester in (0, 3):
                        # all instances / a subset in the order of the cluster / the same with every node's
                        # instances declared in the opposite order
                        for ids in ('*', '10.0.0.1:25001,10.0.0.2:25002,10.0.0.2:25003',
                                    '10.0.0.2:25003,10.0.0.1:25001,10.0.0.2:25002,10.0.0.1:25000'):
                            jobs.append((loads, dist, st, requester, ids, {}))
                    if loads in ((0, 0, 0, 0), (30, 0, 0, 0)):
                        jobs.append((loads, dist, st, 0, '*', {'lack_b': (1,)}))
                    if loads in ((0, 0, 0, 0), (30, 0, 0, 0), (0, 0, 60, 0), (60, 30, 0, 0)):
                        jobs.append((loads, dist, st, 3, '*', {'exited': True}))
        r2 = pool.map(part2, jobs, chunksize=4)
    n1 = sum(r[0] for r in r1)
    distinct = set()
    samples = []
    for n, bad, d, sample in r1:
        distinct |= d
        if sample and len(samples) < 2:
            samples.append(sample)
        for v in bad:
            out.report(v, {'driver': 'C14-part1', 'config': {}, 'events': [v]})
    n2 = 0
    internal = 0
    for job, errs, targets, res in r2:
        n2 += 1
        distinct.add(('app', job[1], job[2], tuple(sorted((k, tuple(v)) for k, v in targets.items())) != ()))
        if res[0] == 'exc':
            internal += 1
        for v in errs:
            out.report(v, {'driver': 'C14-part2', 'config': {'job': job}, 'events': [job]})
        if len(samples) < 4 and targets and job[0] != (0, 0, 0, 0):
            samples.append({'loads': job[0], 'distribution': job[1], 'strategy': job[2], 'requester': job[3],
                            'identifiers': job[4], 'requests': targets})
    cov = out.coverage
    cov['evaluations'] = n1 + n2
    cov['distinct_nontrivial'] = len(distinct)
    cov['single_decisions'] = n1
    cov['application_starts'] = n2
    cov['application_starts_cut_on_internal_error'] = internal
    cov['samples'] = samples
    cov['rule'] = ('(1) 4 instances on 2 nodes brought to OPERATION by the real handshake, load tables built by really '
                   'starting load processes (0/30/60 per instance), then the real get_supvisors_instance is called for every '
                   'ordered candidate subset x 5 pending-request maps (incl. two requests on the two instances of one node) x 4 loads x 6 strategies x 2 requesters and compared '
                   'with the set-valued reference; (2) real start_application of a SINGLE_INSTANCE / SINGLE_NODE / ALL_INSTANCES application '
                   'of 3 sequenced programs, every process starting normally: the targets of the emitted start requests are '
                   'compared with the reference (instance / node of the whole application, then request by request with the '
                   'candidates in declared order, the load table at that time and the pending requests). distinct = distinct (strategy, outcome class, tie size, load, subset size)')
    out.assumptions += ['ties beyond the documented tie-break are all acceptable']
    return out.finish(exhaustive=True)


def replay(payload):
    print(payload['events'][0])
    if payload['driver'] == 'C14-part2':
        job = payload['events'][0]
        job = (tuple(job[0]), job[1], job[2], job[3], job[4], job[5])
        print(part2(job)[1:])
    return 0
