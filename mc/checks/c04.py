"""C04 - start requests only go to eligible instances with spare load."""
import os

from ..drivers.jobs import Jobs
from ..report import tier
from .c03 import app, prog, kwargs_of
from .e1 import run_e1, replay_e1

DRIVER = Jobs('C04', ['C04'])
STRATS = ['CONFIG', 'LESS_LOADED', 'MOST_LOADED', 'LOCAL', 'LESS_LOADED_NODE', 'MOST_LOADED_NODE']


def base(name, apps, **kw):
    c = {'n': 3, 'node_of': [0, 0, 1], 'apps': apps, 'T': 3, 'D': 0, 'behaviours': ['run'], 'name': name, 'cost': 3}
    c.update(kw)
    return c


def start(who, strategy, name):
    return ['rpc', who, 'start_application', [strategy, name, False]]


def configs(t):
    out = []
    heavy = lambda dist='ALL_INSTANCES', ids='*': app('A', 0, [prog('a', 1, load=40), prog('b', 1, load=40),
                                                               prog('c', 2, load=30), prog('e', 2, load=30)],
                                                      distribution=dist, identifiers=ids)
    for st in STRATS:
        out.append(base(f'loads-{st}', [heavy()], triggers=[start(0 if st != 'LOCAL' else 1, st, 'A')]))
    # one node only: the last programs cannot fit
    out.append(base('one-node-overflow', [heavy()], n=2, node_of=[0, 0], triggers=[start(0, 'LESS_LOADED', 'A')]))
    out.append(base('one-node-overflow-D1', [heavy()], n=2, node_of=[0, 0], triggers=[start(1, 'CONFIG', 'A')], D=1,
                    cost=6))
    # several programs of one sequence: the pending requests of the same evaluation decide
    out.append(base('same-sequence-overflow', [app('A', 0, [prog('a', 1, load=40), prog('b', 1, load=40),
                                                             prog('c', 1, load=40), prog('e', 2, load=10)])],
                    n=2, node_of=[0, 0], triggers=[start(0, 'LESS_LOADED', 'A')]))
    out.append(base('same-sequence-two-nodes', [app('A', 0, [prog('a', 1, load=60), prog('b', 1, load=60),
                                                              prog('c', 1, load=60)])],
                    triggers=[start(2, 'MOST_LOADED', 'A')], cost=5))
    # per-instance program knowledge and disabled programs
    out.append(base('lack-and-disabled', [app('A', 0, [prog('a', 1, load=20), prog('b', 1, load=20), prog('c', 2, load=20)])],
                    lack={'0': ['A:b'], '2': ['A:a']}, disabled={'1': ['A:c']},
                    triggers=[start(0, 'LESS_LOADED', 'A')]))
    out.append(base('nowhere', [app('A', 0, [prog('a', 1, load=20, required=True), prog('b', 2, load=20)], 'CONTINUE')],
                    lack={'0': ['A:a'], '1': ['A:a']}, disabled={'2': ['A:a']}, triggers=[start(1, 'CONFIG', 'A')]))
    # identifiers rules: list, alias, nick identifiers
    out.append(base('identifiers-list', [app('A', 0, [prog('a', 1, load=20, identifiers='10.0.0.1:25001,10.0.0.2:25002'),
                                                       prog('b', 1, load=20, identifiers='n3'),
                                                       prog('c', 2, load=90, identifiers='10.0.0.1:25000')])],
                    nicks=['n1', 'n2', 'n3'], triggers=[start(0, 'MOST_LOADED', 'A')]))
    out.append(base('identifiers-alias', [app('A', 0, [prog('a', 1, load=20, identifiers='front'),
                                                        prog('b', 2, load=20, identifiers='back,n1')])],
                    nicks=['n1', 'n2', 'n3'], aliases={'front': 'n2,n3', 'back': 'n3'},
                    triggers=[start(2, 'CONFIG', 'A')]))
    # restricted distribution: the application's rule replaces the programs'
    for dist in ('SINGLE_INSTANCE', 'SINGLE_NODE'):
        out.append(base(f'{dist}', [app('A', 0, [prog('a', 1, load=30, identifiers='10.0.0.1:25000'),
                                                  prog('b', 1, load=30), prog('c', 2, load=30)],
                                         distribution=dist, identifiers='10.0.0.1:25001,10.0.0.2:25002')],
                        triggers=[start(0, 'LESS_LOADED', 'A')]))
    # SINGLE_NODE with two instances of the chosen node: a program disabled on / unknown to one of them only
    for st in ('CONFIG', 'LESS_LOADED'):
        out.append(base(f'SINGLE_NODE-disabled-on-one-{st}',
                        [app('A', 0, [prog('a', 1, load=30), prog('b', 1, load=30), prog('c', 2, load=30)],
                             distribution='SINGLE_NODE', identifiers='*')],
                        disabled={'0': ['A:b']}, lack={'1': ['A:c']}, triggers=[start(2, st, 'A')]))
    # two applications started concurrently, in either order, second before / between / after the acknowledgements
    two = [app('A', 0, [prog('a', 1, load=40), prog('b', 2, load=40)]),
           app('B', 0, [prog('d', 1, load=40), prog('e', 2, load=40)])]
    out.append(base('two-apps-same-requester', two, n=2, node_of=[0, 0],
                    triggers=[start(0, 'LESS_LOADED', 'A'), start(0, 'LESS_LOADED', 'B')], D=1, cost=6))
    big = [app('A', 0, [prog('a', 1, load=60)]), app('B', 0, [prog('d', 1, load=60)])]
    out.append(base('two-apps-60-same-requester', big, n=2, node_of=[0, 0],
                    triggers=[start(0, 'CONFIG', 'A'), start(0, 'CONFIG', 'B')], D=1, cost=5))
    out.append(base('two-apps-two-requesters', two, n=2, node_of=[0, 0],
                    triggers=[start(1, 'MOST_LOADED', 'B'), start(0, 'CONFIG', 'A')], cost=4))
    # a process already running (started directly) is not requested again
    out.append(base('already-running', [app('A', 0, [prog('a', 1, load=20), prog('b', 1, load=20)])],
                    setup=[['ustart', 1, 'A:a']], triggers=[['rpc', 0, 'start_process', ['CONFIG', 'A:a', '', False]],
                                                            start(0, 'CONFIG', 'A')],
                    job_kind='application'))
    # an instance re-identified (restarted) before the start
    out.append(base('after-restart', [heavy()], setup=[['crash', 1], ['tick', 0], ['tick', 2], ['tick', 0], ['tick', 2],
                                                       ['tick', 0], ['tick', 2], ['restart', 1]],
                    warm=7, triggers=[start(0, 'LESS_LOADED_NODE', 'A')]))
    if t == 'thorough':
        deep = []
        for c in out:
            c2 = dict(c)
            c2['D'] = min(2, c['D'] + 1)
            c2['T'] = c['T'] + 1
            c2['behaviours'] = ['run', 'backoff', 'retry', 'giveup']
            c2['name'] = c['name'] + '-deep'
            c2['cost'] = c['cost'] * 10
            deep.append(c2)
        out += deep
    return out


def main():
    t = tier()
    cfgs = configs(t)
    cap = int(os.environ.get('VERIF_CAP_S', '0')) or (None if t == 'quick' else 2400)
    for c in cfgs:
        c['max_seconds'] = cap
    out, complete = run_e1(
        'C04', [(DRIVER, cfgs, kwargs_of)],
        rule='explicit-state exploration of application / process starts on 2-3 instances over 1-2 nodes: expected_loading '
             'up to the node cap, per-instance program knowledge and disabled programs, identifiers lists / aliases / nick '
             'identifiers, restricted distributions, two applications started concurrently in either order, an instance '
             're-identified before the start; every emitted start request is judged against the sender\'s instance view, '
             'the target\'s Supervisor configuration, the applicable identifiers rule and an independent load computation; '
             'every "No resource available" against an independent search for an eligible instance',
        assumptions=['pending load is a lower bound (requests of the same evaluation, requests or their STARTING event '
                     'still in flight), the no-resource check uses the matching upper bound: no false alarm by construction',
                     '# and @ sign rules are resolved in C18, not here'])
    return out.finish(exhaustive=complete)


def replay(payload):
    return replay_e1(payload, {'jobs': DRIVER})
