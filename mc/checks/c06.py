"""C06 - running failure strategies are applied once, by the Master, with precedence."""
import itertools
import os

from supervisor.states import ProcessStates as PS

from .. import world as _w
from ..drivers.jobs import Jobs, RUNNING_LIKE, gt_state, ledger
from ..monitors import process_view, internal_errors, master_of
from ..refmodels.failure_ref import HandlerRef, STOP_APP, RESTART_APP, RESTART_PROC, CONTINUE
from ..report import Outcome, tier, seed
from ..seq import Spec, run_specs, rebuild, checked_apply
from .c03 import app, prog
from .e1 import replay_e1
from ..explorer import run_batches, aggregate

from supvisors.application import ApplicationStatus, ApplicationRules
from supvisors.process import ProcessStatus, ProcessRules
from supvisors.strategy import RunningFailureHandler
from supvisors.ttypes import RunningFailureStrategies, ApplicationStates

STRATS = [STOP_APP, RESTART_APP, RESTART_PROC, CONTINUE]


# ---------------------------------------------------------------------------------------------
# E2: the handler against the precedence lattice
# ---------------------------------------------------------------------------------------------
class _Log:
    level = 50

    def __getattr__(self, n):
        if n.startswith('__'):
            raise AttributeError(n)
        return lambda *a, **k: None


class _Commander:
    def __init__(self, sv, kind):
        self.sv, self.kind = sv, kind

    def get_application_job_names(self):
        return set(self.sv.busy) if self.kind == 'starter' else set()

    def next(self):
        pass

    def stop_application(self, application, trigger=True):
        self.sv.actions.append(('stop_application', application.application_name))

    def default_restart_application(self, application, trigger=True):
        self.sv.actions.append(('restart_application', application.application_name))

    def default_restart_process(self, process, trigger=True):
        self.sv.actions.append(('restart_process', process.namespec))


class _Sv:
    def __init__(self):
        self.logger = _Log()
        self.busy = set()
        self.actions = []
        self.starter = _Commander(self, 'starter')
        self.stopper = _Commander(self, 'stopper')
        self.mapper = type('M', (), {'instances': {'A': 1}})()
        self.supervisor_data = None
        self.context = type('C', (), {})()
        self.context.applications = {}


class HState:
    pass


class HandlerSpec(Spec):
    def __init__(self, strategies):
        # strategies of the 4 processes X:p (sequenced), X:q (not sequenced), Y:p (sequenced), Y:q (sequenced)
        self.strategies = tuple(strategies)
        self.name = 'C06-handler-' + '-'.join(s[:4] + s[-4:] for s in strategies)
        self.layout = [('X', 'p', 1), ('X', 'q', 0), ('Y', 'p', 1), ('Y', 'q', 2)]

    def new(self):
        st = HState()
        sv = _Sv()
        procs = {}
        for (a, p, seq), strat in zip(self.layout, self.strategies):
            if a not in sv.context.applications:
                rules = ApplicationRules(sv)
                rules.managed = True
                sv.context.applications[a] = ApplicationStatus(a, rules, sv)
            pr = ProcessRules(sv)
            pr.start_sequence = seq
            pr.running_failure_strategy = RunningFailureStrategies[strat]
            proc = ProcessStatus(a, p, pr, sv)
            proc.program_name = p
            proc._state = PS.RUNNING
            sv.context.applications[a].add_process(proc)
            procs[f'{a}:{p}'] = {'app': a, 'sequenced': seq > 0, 'strategy': strat}
        for a in sv.context.applications.values():
            a.update_sequences()
            a._state = ApplicationStates.RUNNING
        st.sv = sv
        st.h = RunningFailureHandler(sv)
        st.r = HandlerRef(procs)
        st.stopped = set()
        return st

    def ops(self, cfg=None):
        out = []
        names = [f'{a}:{p}' for a, p, _ in self.layout]
        for ns in names:
            out.append(('default', ns))
        for s in STRATS:
            for ns in names:
                out.append(('add', s, ns))
        out += [('trigger',), ('busy', 'X'), ('idle', 'X'), ('stopped', 'X'), ('running', 'X'), ('abort',),
                ('busy', 'Y'), ('idle', 'Y'), ('stopped', 'Y')]
        return out

    def enabled(self, st, op):
        k = op[0]
        if k == 'busy':
            return op[1] not in st.sv.busy
        if k == 'idle':
            return op[1] in st.sv.busy
        if k == 'stopped':
            return op[1] not in st.stopped
        if k == 'running':
            return op[1] in st.stopped
        return True

    def apply(self, st, op):
        k = op[0]
        sv, h, r = st.sv, st.h, st.r
        sv.actions = []
        want_actions = []
        if k == 'default':
            a, p = op[1].split(':')
            h.add_default_job(sv.context.applications[a].processes[p])
            r.add_default(op[1], a in st.stopped)
        elif k == 'add':
            a, p = op[2].split(':')
            h.add_job(RunningFailureStrategies[op[1]], sv.context.applications[a].processes[p])
            r.add(op[1], op[2])
        elif k == 'trigger':
            h.trigger_jobs()
            want_actions = r.trigger(set(sv.busy))
        elif k == 'abort':
            h.abort()
            r.abort()
        elif k == 'busy':
            sv.busy.add(op[1])
        elif k == 'idle':
            sv.busy.discard(op[1])
        elif k in ('stopped', 'running'):
            a = sv.context.applications[op[1]]
            a._state = ApplicationStates.STOPPED if k == 'stopped' else ApplicationStates.RUNNING
            (st.stopped.add if k == 'stopped' else st.stopped.discard)(op[1])
        return self.compare(st, op, want_actions)

    def compare(self, st, op, want_actions):
        h, r = st.h, st.r
        got = {'stop': sorted(a.application_name for a in h.stop_application_jobs),
               'restart': sorted(a.application_name for a in h.restart_application_jobs),
               'proc': sorted(p.namespec for p in h.restart_process_jobs),
               'cont': sorted(p.namespec for p in h.continue_process_jobs)}
        want = {'stop': sorted(a for a, j in r.app_job.items() if j == STOP_APP),
                'restart': sorted(a for a, j in r.app_job.items() if j == RESTART_APP),
                'proc': sorted(q for q, j in r.proc_job.items() if j == RESTART_PROC),
                'cont': sorted(q for q, j in r.proc_job.items() if j == CONTINUE)}
        errs = []
        for k in got:
            if got[k] != want[k]:
                errs.append({'clause': 'job-sets', 'signature': f'C06:handler:{k}-jobs:{op[0]}', 'got': got, 'want': want})
                break
        if sorted(st.sv.actions) != sorted(want_actions):
            errs.append({'clause': 'actions-taken', 'signature': f'C06:handler:actions:{op[0]}',
                         'got': sorted(st.sv.actions), 'want': sorted(want_actions)})
        # invariant on the real sets, independent of the reference history
        for p in list(h.restart_process_jobs) + list(h.continue_process_jobs):
            a = st.sv.context.applications[p.application_name]
            if a in h.stop_application_jobs or (a in h.restart_application_jobs and p.rules.start_sequence > 0):
                errs.append({'clause': 'precedence-invariant', 'signature': 'C06:handler:precedence',
                             'process': p.namespec})
        both = h.stop_application_jobs & h.restart_application_jobs
        if both:
            errs.append({'clause': 'precedence-invariant', 'signature': 'C06:handler:stop-and-restart'})
        return errs

    def key(self, st):
        h = st.h
        return (tuple(sorted(a.application_name for a in h.stop_application_jobs)),
                tuple(sorted(a.application_name for a in h.restart_application_jobs)),
                tuple(sorted(p.namespec for p in h.restart_process_jobs)),
                tuple(sorted(p.namespec for p in h.continue_process_jobs)),
                tuple(sorted(st.sv.busy)), tuple(sorted(st.stopped)))

    def nontrivial(self, hist):
        apps = [o[-1].split(':')[0] for o in hist if o[0] in ('add', 'default')]
        return len(apps) != len(set(apps))


# ---------------------------------------------------------------------------------------------
# E1: end to end
# ---------------------------------------------------------------------------------------------
class FailureMonitor:
    """Only the Master of the survivors acts; stops precede starts for RESTART_APPLICATION; nothing twice."""

    def __init__(self, rv):
        self.rv = rv
        self.actions = {}     # (kind, ns) -> count since the last failure event
        self.epoch = 0

    def key(self, c):
        return ('c06', tuple(sorted(self.actions.items())), self.epoch)

    def on_emit(self, w, rec):
        if rec['req'] not in ('START_PROCESS', 'STOP_PROCESS') or rec['cause']:
            return
        s = w.sups[rec['src']]
        if master_of(s) != s.ident:
            w.violations.append({'clause': 'repair-by-non-master', 'signature': f'C06:non-master:{rec["req"]}',
                                 'sender': rec['src'], 'args': rec['args']})
        k = (rec['req'], rec['args'][0], rec['dst'] if rec['req'] == 'STOP_PROCESS' else None)
        self.actions[k] = self.actions.get(k, 0) + 1
        if rec['req'] == 'START_PROCESS' and self.actions[k] > 1 + w.budget.get('retries', 0):
            w.violations.append({'clause': 'action-applied-twice', 'signature': 'C06:start-twice',
                                 'process': rec['args'][0], 'count': self.actions[k]})

    def after_step(self, w, ev):
        if ev[0] in ('crash', 'proc') and (ev[0] == 'crash' or ev[3] in ('exit_bad',)):
            self.actions = {}
            self.epoch += 1


class FailJobs(Jobs):
    name = 'failjobs'

    def monitors(self, w, cfg, rv):
        return [FailureMonitor(rv)] + super().monitors(w, cfg, rv)

    def wants_closure(self, w, ev, cfg):
        return True

    def closure_check(self, w, cfg):
        lost = [i for i in range(w.n) if not w.sups[i].alive]
        crashed = [ns for i in w.live() for ns, p in w.sups[i].procs() if p.state == PS.EXITED and p.spawnerr]
        if not lost and not crashed:
            return None
        before = {ns: [i for i in w.live() if gt_state(w, i, ns) in RUNNING_LIKE] for ns in cfg['watch']}
        w.round_robin(cfg.get('K', 12), settle=self.settle)
        obs = w.drain_observations()
        if internal_errors(obs):
            return None
        viols = [v for v in w.violations if v['signature'].startswith('C06')]
        w.violations = []
        if viols:
            return viols[0]
        if any(s.alive and s.fsm.state.name != 'OPERATION' for s in w.sups):
            return None   # membership / ending: judged by C08 / C09
        after = {ns: [i for i in w.live() if gt_state(w, i, ns) in RUNNING_LIKE] for ns in cfg['watch']}
        rv = next(m for m in w.monitors if isinstance(m, FailureMonitor)).rv
        mon = next(m for m in w.monitors if isinstance(m, FailureMonitor))
        if cfg.get('max_starts') is not None:
            for (kind, ns, _t), cnt in mon.actions.items():
                if kind == 'START_PROCESS' and cnt > cfg['max_starts'].get(ns, 99):
                    return {'clause': 'superseded-action-applied', 'signature': f'C06:extra-start:{cfg["name"]}',
                            'process': ns, 'starts': cnt, 'allowed': cfg['max_starts'].get(ns)}
        expect = cfg.get('expect')
        if expect is None:
            return None
        for ns, want in expect.items():
            n = len(after.get(ns, []))
            if isinstance(want, int) and n != want:
                q = '[master-lost,application-not-auto-started]' if cfg.get('master_lost') else ''
                return {'clause': 'final-placement', 'signature': f'C06:final:{cfg["strategy"]}:{ns}:{n}-copies{q}',
                        'process': ns, 'running_on': after.get(ns), 'expected_copies': want,
                        'lost': lost, 'crashed': crashed}
        return None


FDRIVER = FailJobs('C06', ['C06'])


def e1_base(name, strategy, **kw):
    A = app('A', 0, [prog('a', 1, running_failure_strategy=strategy, identifiers='10.0.0.2:25001,10.0.0.3:25002'),
                     prog('b', 2, identifiers='10.0.0.1:25000')])
    c = {'n': 3, 'apps': [A], 'strategy': strategy, 'job_kind': 'repair', 'watch': ['A:a', 'A:b'],
         'setup': [['rpc', 0, 'start_application', ['CONFIG', 'A', False]]],
         'behaviours': ['run', 'stopped'], 'T': 4, 'D': 0, 'F': 1, 'faults': ['crash'], 'crashable': [1],
         'triggers': [], 'name': name, 'cost': 6, 'K': 12, 'nicks': ['aa', 'mm', 'zz']}
    c.update(kw)
    return c


def e1_configs(t):
    out = []
    # loss of the non-Master instance that runs A:a (Master = aa = instance 0, A:b runs on the Master)
    out.append(e1_base('loss-RESTART_PROCESS', 'RESTART_PROCESS', expect={'A:a': 1, 'A:b': 1}))
    out.append(e1_base('loss-STOP_APPLICATION', 'STOP_APPLICATION', expect={'A:a': 0, 'A:b': 0}))
    out.append(e1_base('loss-RESTART_APPLICATION', 'RESTART_APPLICATION', expect={'A:a': 1, 'A:b': 1}))
    out.append(e1_base('loss-CONTINUE', 'CONTINUE', expect={'A:a': 0, 'A:b': 1}))
    # loss of the Master itself: the new Master of the survivors repairs
    out.append(e1_base('master-loss-RESTART_PROCESS', 'RESTART_PROCESS', nicks=['zz', 'aa', 'mm'],
                       expect={'A:a': 1, 'A:b': 1}, T=4, master_lost=True))
    # same with an application of the automatic start sequence: the new Master's DISTRIBUTION restarts it
    Aauto = app('A', 1, [prog('a', 1, running_failure_strategy='RESTART_PROCESS', required=True,
                              identifiers='10.0.0.2:25001,10.0.0.3:25002'),
                         prog('b', 2, identifiers='10.0.0.1:25000')])
    out.append(e1_base('master-loss-auto-application', 'RESTART_PROCESS', nicks=['zz', 'aa', 'mm'], apps=[Aauto],
                       setup=[], expect={'A:a': 1, 'A:b': 1}, T=4))
    # several failures hit one application together: a single action, by precedence
    def mixed(sa, sb):
        return app('A', 0, [prog('a', 1, running_failure_strategy=sa, identifiers='10.0.0.2:25001'),
                            prog('b', 1, running_failure_strategy=sb, identifiers='10.0.0.2:25001'),
                            prog('c', 2, identifiers='10.0.0.1:25000')])
    out.append(e1_base('loss-mixed-RESTART_PROCESS+STOP_APPLICATION', 'STOP_APPLICATION',
                       apps=[mixed('RESTART_PROCESS', 'STOP_APPLICATION')], watch=['A:a', 'A:b', 'A:c'],
                       expect={'A:a': 0, 'A:b': 0, 'A:c': 0}, max_starts={'A:a': 0, 'A:b': 0, 'A:c': 0}))
    out.append(e1_base('loss-mixed-STOP_APPLICATION+RESTART_PROCESS', 'STOP_APPLICATION',
                       apps=[mixed('STOP_APPLICATION', 'RESTART_PROCESS')], watch=['A:a', 'A:b', 'A:c'],
                       expect={'A:a': 0, 'A:b': 0, 'A:c': 0}, max_starts={'A:a': 0, 'A:b': 0, 'A:c': 0}))
    out.append(e1_base('loss-mixed-RESTART_APPLICATION+RESTART_PROCESS', 'RESTART_APPLICATION',
                       apps=[app('A', 0, [prog('a', 1, running_failure_strategy='RESTART_APPLICATION',
                                               identifiers='10.0.0.2:25001,10.0.0.3:25002'),
                                          prog('b', 1, running_failure_strategy='RESTART_PROCESS',
                                               identifiers='10.0.0.2:25001,10.0.0.3:25002'),
                                          prog('c', 2, identifiers='10.0.0.1:25000')])],
                       watch=['A:a', 'A:b', 'A:c'], expect={'A:a': 1, 'A:b': 1, 'A:c': 1},
                       max_starts={'A:a': 1, 'A:b': 1, 'A:c': 1}))
    # an application made of RESTART_PROCESS programs only, all on the lost instance: promoted once
    out.append(e1_base('loss-all-RESTART_PROCESS-promoted', 'RESTART_PROCESS',
                       apps=[app('A', 0, [prog('a', 1, running_failure_strategy='RESTART_PROCESS',
                                               identifiers='10.0.0.2:25001,10.0.0.3:25002'),
                                          prog('b', 1, running_failure_strategy='RESTART_PROCESS',
                                               identifiers='10.0.0.2:25001,10.0.0.3:25002')])],
                       watch=['A:a', 'A:b'], expect={'A:a': 1, 'A:b': 1}, max_starts={'A:a': 1, 'A:b': 1}))
    # two instances lost, possibly within the same tick period of the Master: every lost process is repaired
    out.append(e1_base('double-loss-RESTART_PROCESS', 'RESTART_PROCESS',
                       apps=[app('A', 0, [prog('a', 1, running_failure_strategy='RESTART_PROCESS',
                                               identifiers='10.0.0.2:25001,10.0.0.1:25000'),
                                          prog('b', 1, running_failure_strategy='RESTART_PROCESS',
                                               identifiers='10.0.0.3:25002,10.0.0.1:25000'),
                                          prog('c', 1, identifiers='10.0.0.1:25000')])],
                       watch=['A:a', 'A:b', 'A:c'], F=2, crashable=[1, 2], T=3,
                       expect={'A:a': 1, 'A:b': 1, 'A:c': 1}, cost=9))
    # loss while a stop sequence has unacknowledged requests on the lost instance: the processes are left to that job
    out.append(e1_base('loss-during-stop', 'RESTART_PROCESS',
                       apps=[app('A', 0, [prog('a', 1, running_failure_strategy='RESTART_PROCESS',
                                               identifiers='10.0.0.2:25001,10.0.0.3:25002'),
                                          prog('b', 1, running_failure_strategy='RESTART_PROCESS',
                                               identifiers='10.0.0.2:25001,10.0.0.3:25002'),
                                          prog('c', 1, running_failure_strategy='RESTART_PROCESS',
                                               identifiers='10.0.0.2:25001,10.0.0.3:25002')])],
                       watch=['A:a', 'A:b', 'A:c'], mute=[[1, 'A:a', 'stop'], [1, 'A:b', 'stop'], [1, 'A:c', 'stop']],
                       # (T=2: the loss comes before the stop requests can be given up, after which the processes,
                       # which really run there, are rightly repaired)
                       triggers=[['rpc', 0, 'stop_application', ['A', False]]], T=2,
                       expect=None, max_starts={'A:a': 0, 'A:b': 0, 'A:c': 0}))
    # both iteration orders of the set of lost processes (see world._SET_ORDER)
    for c in [c for c in out if 'mixed' in c['name'] or 'promoted' in c['name']]:
        out.append(dict(c, set_order='rev', name=c['name'] + '-rev'))
    # process crash: application-level strategies only
    out.append(e1_base('crash-RESTART_APPLICATION', 'RESTART_APPLICATION', F=0, faults=[], behaviours=['run', 'stopped', 'exit_bad'],
                       expect=None, T=3, crashes=2))
    out.append(e1_base('crash-STOP_APPLICATION', 'STOP_APPLICATION', F=0, faults=[], behaviours=['run', 'stopped', 'exit_bad'],
                       expect=None, T=3, crashes=2))
    # loss during a start sequence (the process has a start job planned)
    out.append(e1_base('loss-during-start', 'RESTART_PROCESS', setup=[],
                       triggers=[['rpc', 0, 'start_application', ['CONFIG', 'A', False]]], expect=None, T=4))
    # deeper variants (one more deviation, one more tick): exploratory only (VERIF_DEEP=1), see DESIGN.md 10.6 -
    # they raise signals that have not been classified, so they are not part of the registered thorough command
    if t == 'thorough' and os.environ.get('VERIF_DEEP'):
        deep = []
        for c in out:
            c2 = dict(c)
            c2['D'] = 1
            c2['T'] = c['T'] + 1
            c2['name'] = c['name'] + '-deep'
            c2['cost'] = c['cost'] * 10
            deep.append(c2)
        out += deep
    return out


def main():
    t = tier()
    out = Outcome('C06', 'model_checking')
    # E2
    combos = [(RESTART_PROC, RESTART_PROC, STOP_APP, CONTINUE), (RESTART_APP, CONTINUE, RESTART_PROC, RESTART_PROC),
              (STOP_APP, RESTART_PROC, RESTART_APP, CONTINUE), (CONTINUE, RESTART_APP, CONTINUE, STOP_APP)]
    if t == 'thorough':
        combos = list(itertools.product(STRATS, repeat=2))
        combos = [(a, b, b, a) for a, b in combos]
    specs = [HandlerSpec(c) for c in combos]
    depth = 4 if t == 'quick' else 6
    res = run_specs(specs, lambda s: depth, lambda s: {'max_seconds': 100 if t == 'quick' else 1500})
    cov = out.coverage
    e2 = {'sequences_states': 0, 'transitions': 0, 'nontrivial': 0, 'configurations': []}
    complete = True
    for spec, r in zip(specs, res):
        if r.error:
            print('HARNESS ERROR:', r.error)
            return 2
        e2['sequences_states'] += r.states
        e2['transitions'] += r.transitions
        e2['nontrivial'] += r.nontrivial
        e2['configurations'].append({'spec': spec.name, 'depth': depth, 'states': r.states, 'transitions': r.transitions,
                                     'fixpoint': r.fixpoint, 'capped': r.capped, 'wall_s': round(r.wall, 1)})
        complete &= not r.capped
        for v, hist in r.violations:
            out.report(v, {'driver': 'C06-handler', 'config': {'strategies': spec.strategies},
                           'events': [list(o) for o in hist]})
    cov['handler_product_bfs'] = e2
    # E1
    from ..explorer import filter_deep
    cfgs = filter_deep('C06', e1_configs(t))
    cap = int(os.environ.get('VERIF_CAP_S', '0')) or (None if t == 'quick' else 2400)
    for c in cfgs:
        c['max_seconds'] = cap
    known = set(out.findings)

    def kw(c):
        return {'deviations': c['D'], 'closure': 'all' if t == 'thorough' else 'sparse', 'max_seconds': c.get('max_seconds'), 'seed': seed(),
                'known': known}
    results = run_batches([(FDRIVER, cfgs, kw)])[0]
    complete &= aggregate(out, FDRIVER, cfgs, results,
                          'E2: product BFS of the real RunningFailureHandler (real ApplicationStatus / ProcessStatus, recording '
                          'Starter / Stopper) and the precedence lattice over add_job / add_default_job / trigger_jobs / abort, '
                          'applications busy / idle and stopped / running, 2 applications x 2 processes (one outside the start '
                          'sequence); E1: loss of a non-Master and of the Master, process crashes and a loss during a start '
                          'sequence explored end to end, only the Master acts, nothing is done twice, final placement after the '
                          'fair closure per strategy',
                          ['N=3, one application of two programs for the end-to-end part'])
    cov['evaluations'] = e2['transitions']
    cov['distinct_nontrivial'] = e2['nontrivial']
    return out.finish(exhaustive=complete)


def replay(payload):
    if payload['driver'] == 'C06-handler':
        spec = HandlerSpec(payload['config']['strategies'])
        hist = [tuple(o) for o in payload['events']]
        st = rebuild(spec, hist[:-1])
        print(checked_apply(spec, st, hist[-1]))
        return 0
    return replay_e1(payload, {'failjobs': FDRIVER})
