"""C16 part 2 - hostile product: reachable instance states x every next event of a broad alphabet."""
import itertools
import multiprocessing
import os

from supervisor import events as sup_events
from supervisor.states import ProcessStates as PS

from .. import world as W
from ..canon import canon_world
from ..hostile import messages
from ..monitors import internal_errors, instance_states
from ..rulesgen import rules_xml, groups_of
from ..world import World, make_scenario
from . import c17

RULES = [{'name': 'A', 'start_sequence': 1, 'programs': [{'name': 'a', 'start_sequence': 1, 'expected_loading': 10},
                                                         {'name': 'b', 'start_sequence': 0, 'expected_loading': 10}]}]


def run(w):
    for e in w.proc_events(('run', 'stopped')):
        w.apply(e)


def reachable_states():
    """Worlds after every step of scripted real histories (cold start, start of a process, crash, detection,
    restart), deduplicated on the canonical key."""
    seen = {}

    def note(w):
        k = canon_world(w)
        if k not in seen:
            seen[k] = W.snapshot(w)

    def step_all(w, rounds, settle=None, order=None):
        for _ in range(rounds):
            for i in (order or w.live()):
                if not w.sups[i].alive:
                    continue
                if settle:
                    settle(w)
                w.apply(('tick', i))
                note(w)
                while True:
                    ks = w.deliverable()
                    if not ks:
                        break
                    w.apply(('deliver',) + ks[0])
                    note(w)
    for fence in ('false', 'true'):
        sc = make_scenario(3, config={'synchro_options': 'LIST,TIMEOUT', 'auto_fence': fence}, rules=rules_xml(RULES),
                           groups=groups_of(RULES), nicks=['n1', 'n2', 'n3'])
        w = World(sc)
        w.start_all()
        note(w)
        step_all(w, 5)
        step_all(w, 2, settle=run)
        w.apply(('crash', 2))
        note(w)
        step_all(w, 4)
        w.apply(('restart', 2))
        note(w)
        step_all(w, 5, settle=run)
    W.activate(None)
    return list(seen.values())


def local_events(w, i):
    """Supervisor-side events handed to the listener of instance i (processes / groups added, removed, disabled,
    state events for unknown processes)."""
    s = w.sups[i]
    out = []
    grp = s.supervisord.process_groups.get('A')
    if grp is None:
        return out
    proc = grp.processes['a']
    from types import SimpleNamespace as NS
    ghost_group = NS(config=NS(name='ghost'))
    ghost = NS(config=NS(name='g'), group=ghost_group, pid=0, spawnerr='', extra_args='', backoff=0,
               supvisors_config=NS(program_config=NS(name='g', disabled=False), process_index=0))
    from supvisors.ttypes import ProcessAddedEvent, ProcessRemovedEvent, ProcessEnabledEvent, ProcessDisabledEvent
    out.append(('local:state-unknown-process', lambda: s.listener.on_process_state(
        sup_events.ProcessStateRunningEvent(ghost, PS.STARTING))))
    out.append(('local:process-added', lambda: s.listener.on_process_added(ProcessAddedEvent(proc))))
    out.append(('local:process-removed', lambda: s.listener.on_process_removed(ProcessRemovedEvent(proc))))
    out.append(('local:process-removed-unknown', lambda: s.listener.on_process_removed(ProcessRemovedEvent(ghost))))
    out.append(('local:process-disabled', lambda: s.listener.on_process_disability(ProcessDisabledEvent(proc))))
    out.append(('local:group-added', lambda: s.listener.on_group_added(sup_events.ProcessGroupAddedEvent('A'))))
    out.append(('local:group-removed', lambda: s.listener.on_group_removed(sup_events.ProcessGroupRemovedEvent('A'))))
    out.append(('local:group-removed-unknown', lambda: s.listener.on_group_removed(sup_events.ProcessGroupRemovedEvent('ghost'))))
    out.append(('local:state-after-group-removed', lambda: (
        s.listener.on_group_removed(sup_events.ProcessGroupRemovedEvent('A')),
        s.listener.on_process_state(sup_events.ProcessStateStartingEvent(proc, PS.STOPPED)))))
    return out


def still_ticks(w, i):
    """After the event the instance still answers on_tick: counter advances, a TICK publication is queued."""
    s = w.sups[i]
    before = s.listener.counter
    w.drain_observations()
    pushed_before = sum(len(q) for k, q in w.channels.items() if k[0] == i)
    w.apply(('tick', i))
    obs = w.drain_observations()
    pushed = sum(len(q) for k, q in w.channels.items() if k[0] == i)
    errs = internal_errors(obs)
    ok = s.listener.counter == before + 1
    return ok, errs, pushed - pushed_before


def job(blob):
    out = []
    n = 0
    w0 = W.restore(blob)
    recv = [i for i in w0.live()][:2]
    for receiver in recv:
        peers = [j for j in range(w0.n) if j != receiver]
        plan = []
        for peer in peers[:2]:
            for label, etype, message in messages(w0, receiver, peer, timestamps=('fresh', 'checking'),
                                                  origin_kinds=('correct', 'nick-only')):
                plan.append((f'{label}:from{peer}', ('inject', receiver, etype, message)))
        for label, fn in local_events(w0, receiver):
            plan.append((label, None))
        for label, ev in plan:
            w = W.restore(blob)
            w.drain_observations()
            s = w.sups[receiver]
            state = s.fsm.state.name
            if ev is not None:
                w.apply(ev)
            else:
                W.activate(w)
                fn = dict(local_events(w, receiver))[label]
                try:
                    fn()
                except Exception as exc:
                    w.faults.append({'kind': 'exception-escapes-listener', 'idx': receiver, 'method': label,
                                     'exc': type(exc).__name__, 'where': W._innermost(exc), 'text': str(exc)[:200]})
            n += 1
            obs = w.drain_observations()
            errs = internal_errors(obs)
            ok, errs2, pushed = still_ticks(w, receiver)
            for e in errs + errs2:
                out.append((e, {'event': label, 'receiver_state': state}))
            if not ok:
                out.append(({'clause': 'periodic-evaluation-stopped', 'signature': f'C16:no-more-ticks:{label.split(":")[1]}'},
                            {'event': label, 'receiver_state': state}))
            elif w.sups[receiver].alive and len(w.live()) > 1 and pushed <= 0 and not errs2 \
                    and any(instance_states(w.sups[receiver])[w.idents[j]] != 'ISOLATED' for j in w.live() if j != receiver):
                out.append(({'clause': 'tick-not-published', 'signature': f'C16:tick-not-published:{label.split(":")[1]}'},
                            {'event': label, 'receiver_state': state}))
    return n, out[:40]


def rpc_matrix():
    """Every XML-RPC of the C17 matrix plus hostile parameters: no exception other than RPCError."""
    import inspect
    from supvisors.rpcinterface import RPCInterface
    out = []
    n = 0
    methods = [m for m, f in inspect.getmembers(RPCInterface, inspect.isfunction) if not m.startswith('_')
               and m != 'get_logger_levels']
    blobs = c17.capture_states()
    extra = {'start_any_process': [(('CONFIG', '(', '', False)), (('CONFIG', '*a', '', False))],
             'get_network_info': [(('n2',)), (('10.0.0.2:25001',))],
             'get_inner_process_info': [(('n2', 'A:a')), (('n1', 'A:*'))],
             'get_all_inner_process_info': [(('n2',))],
             'get_local_process_info': [(('zz:zz',)), (('A',))],
             'start_args': [(('A:a', 'x y', False)), (('A:*', '', False))],
             'end_sync': [(('n2',))],
             'update_numprocs': [(('a', 0, False)), (('a', -1, False)), (('a', 'x', False)), (('a', [1, 2], False)),
                                 (('a', {'n': 1}, False)), (('a', '', False))],
             'change_log_level': [((None,)) if False else ((12345,))],
             'conciliate': [(('SENICIDE',))]}
    for (state, role), blob in sorted(blobs.items()):
        idx = 1 if role == 'slave' else 0
        for method in methods:
            g = c17.grid(method) or []
            calls = [a for a, _ in g] + extra.get(method, [])
            for args in calls:
                w = W.restore(blob)
                w.drain_observations()
                if method == 'update_numprocs' and args[0] == 'a':
                    # the program is known to the server options: the check of the numprocs parameter is reached
                    # (only invalid values are tried: the Supervisor updater is not part of the world)
                    w.sups[idx].server_options.program_configs = {'a': None}
                res = w.user_rpc(idx, method, args)
                obs = w.drain_observations()
                n += 1
                for e in internal_errors(obs):
                    out.append((e, {'state': state, 'role': role, 'method': method, 'args': list(args)}))
    W.activate(None)
    return n, out


def heterogeneous():
    """Instances of one node knowing different programs, SINGLE_NODE / SINGLE_INSTANCE starts with every strategy."""
    out = []
    n = 0
    for dist in ('SINGLE_NODE', 'SINGLE_INSTANCE', 'ALL_INSTANCES'):
        apps = [{'name': 'A', 'distribution': dist, 'programs': [{'name': 'a', 'start_sequence': 1, 'expected_loading': 10},
                                                                 {'name': 'b', 'start_sequence': 1, 'expected_loading': 10}]}]
        for lack in ({1: 'b'}, {0: 'a', 1: 'b'}, {0: 'b', 1: 'b', 2: 'b'}):
            groups = []
            for i in range(3):
                g = groups_of(apps)
                if i in lack:
                    g['A'] = {k: v for k, v in g['A'].items() if k != lack[i]}
                groups.append(g)
            sc = make_scenario(3, config={'synchro_options': 'LIST'}, rules=rules_xml(apps), groups=groups,
                               node_of=[0, 0, 1])
            w = World(sc)
            w.start_all()
            w.round_robin(7)
            blob = W.snapshot(w)
            for st in ('CONFIG', 'LESS_LOADED', 'MOST_LOADED', 'LOCAL', 'LESS_LOADED_NODE', 'MOST_LOADED_NODE'):
                for method, args in (('test_start_application', (st, 'A')), ('start_application', (st, 'A', False)),
                                     ('test_start_process', (st, 'A:*')), ('start_process', (st, 'A:b', '', False))):
                    for who in (0, 2):
                        w = W.restore(blob)
                        w.drain_observations()
                        w.user_rpc(who, method, args)
                        w.round_robin(1, settle=run)
                        obs = w.drain_observations()
                        n += 1
                        for e in internal_errors(obs):
                            out.append((e, {'distribution': dist, 'lack': {str(k): v for k, v in lack.items()},
                                            'method': method, 'args': list(args), 'on': who}))
    W.activate(None)
    return n, out


def run_all(workers):
    blobs = reachable_states()
    ctx = multiprocessing.get_context('fork')
    with ctx.Pool(workers) as pool:
        res = pool.map(job, blobs, chunksize=2)
    n1 = sum(r[0] for r in res)
    v1 = [x for r in res for x in r[1]]
    n2, v2 = rpc_matrix()
    n3, v3 = heterogeneous()
    return {'states': len(blobs), 'injections': n1, 'rpc_calls': n2, 'heterogeneous_calls': n3}, v1 + v2 + v3
