"""Shared plumbing of the E1 (cluster exploration) checks."""
import json
import os

from ..explorer import run_batches, aggregate, replay as replay_events
from ..report import Outcome, tier, seed


def run_e1(prop, batches, rule, assumptions, level='model_checking'):
    """batches: list of (driver, configs, kwargs_of)."""
    out = Outcome(prop, level)
    known = set(out.findings)
    sd = seed()

    def wrap(kwargs_of):
        def f(cfg):
            kw = dict(kwargs_of(cfg))
            kw.setdefault('seed', sd)
            kw['known'] = known
            return kw
        return f
    from ..explorer import filter_deep
    wrapped = [(d, filter_deep(prop, cfgs), wrap(k)) for d, cfgs, k in batches]
    results = run_batches(wrapped)
    complete = True
    for (driver, configs, _k), res in zip(wrapped, results):
        complete &= aggregate(out, driver, configs, res, rule if driver is wrapped[0][0] else driver.name,
                              assumptions)
    return out, complete


def replay_e1(payload, drivers):
    """Plain linear re-execution of a replay file, twice, printing what the oracle sees."""
    driver = drivers[payload['driver']]
    cfg = payload['config']
    events = [tuple(_tuplify(e)) for e in payload['events']]
    sigs = []
    for run in range(2):
        w, viols, _ = replay_events(driver, cfg, events, None, closure=payload.get('closure', False))
        sigs.append(sorted(v['signature'] for v in viols))
        if run == 0:
            print('final state:', w.summary())
            for v in viols:
                print('oracle:', json.dumps(v, default=repr)[:600])
    print('signatures run1:', sigs[0])
    print('signatures run2:', sigs[1])
    want = payload.get('signature')
    if sigs[0] != sigs[1]:
        print('HARNESS ERROR: replay is not deterministic')
        return 2
    if want in sigs[0]:
        print(f'VIOLATION property={payload.get("property")} replay=(reproduced) signature={want}')
        return 1
    print('not reproduced on this tree')
    return 0


def _tuplify(e):
    return tuple(_tuplify(x) if isinstance(x, list) else x for x in e)
