"""C19 - start predictions are side-effect free and match a real start (relational, bounded-exhaustive)."""
import itertools
import json
import multiprocessing
import os

from ..canon import Canon, digest
from ..monitors import observable, internal_errors
from ..report import Outcome, tier
from ..rulesgen import rules_xml, groups_of
from ..world import World, make_scenario

NODE_OF = [0, 0, 1]
LD = {'name': 'ld', 'programs': [{'name': 'l30', 'expected_loading': 30}, {'name': 'l60', 'expected_loading': 60}]}
STRATS = ['CONFIG', 'LESS_LOADED', 'MOST_LOADED', 'LOCAL', 'LESS_LOADED_NODE', 'MOST_LOADED_NODE']


def app_rules(dist, shape):
    if shape == 'seq':       # three programs over two sequences
        progs = [{'name': 'a', 'start_sequence': 1, 'expected_loading': 40},
                 {'name': 'b', 'start_sequence': 1, 'expected_loading': 40},
                 {'name': 'c', 'start_sequence': 2, 'expected_loading': 30, 'wait_exit': True}]
    elif shape == 'init':    # a wait_exit program BEFORE the others: its load is released when it has exited
        progs = [{'name': 'c', 'start_sequence': 1, 'expected_loading': 60, 'wait_exit': True},
                 {'name': 'a', 'start_sequence': 2, 'expected_loading': 60},
                 {'name': 'b', 'start_sequence': 2, 'expected_loading': 30}]
    elif shape == 'reqfail':  # a required program that may not fit anywhere, under the STOP starting failure strategy
        progs = [{'name': 'a', 'start_sequence': 1, 'expected_loading': 10},
                 {'name': 'b', 'start_sequence': 2, 'expected_loading': 70, 'required': True},
                 {'name': 'c', 'start_sequence': 3, 'expected_loading': 10}]
        return {'name': 'app', 'distribution': dist, 'starting_strategy': 'CONFIG', 'starting_failure_strategy': 'STOP',
                'programs': progs}
    elif shape == 'pin':     # a program-level identifiers rule (ignored by the SINGLE_* distributions)
        progs = [{'name': 'a', 'start_sequence': 1, 'expected_loading': 40, 'identifiers': '10.0.0.2:25002'},
                 {'name': 'b', 'start_sequence': 1, 'expected_loading': 20, 'identifiers': '10.0.0.1:25001,10.0.0.1:25000'},
                 {'name': 'c', 'start_sequence': 2, 'expected_loading': 30}]
    elif shape == 'hash':    # a pattern spread over the instances ('#'), resolved when the application is first used
        progs = [{'pattern': 'w_', 'start_sequence': 1, 'expected_loading': 30, 'identifiers': '#'}]
    elif shape == 'light':
        progs = [{'name': 'a', 'start_sequence': 1, 'expected_loading': 10},
                 {'name': 'b', 'start_sequence': 2, 'expected_loading': 10},
                 {'name': 'c', 'start_sequence': 0, 'expected_loading': 10}]
    else:                    # one sequence only
        progs = [{'name': 'a', 'start_sequence': 1, 'expected_loading': 40},
                 {'name': 'b', 'start_sequence': 1, 'expected_loading': 30},
                 {'name': 'c', 'start_sequence': 1, 'expected_loading': 30}]
    return {'name': 'app', 'distribution': dist, 'starting_strategy': 'CONFIG', 'programs': progs}


def settle(w):
    for e in w.proc_events(('run', 'stopped')):
        w.apply(e)
    for e in w.proc_events(('exit_ok',)):
        if e[2] == 'app:c':
            w.apply(e)


def build(loads, dist, shape, history='fresh'):
    apps = [LD, app_rules(dist, shape)]
    extra = {'app': {'w_1': {}, 'w_2': {}, 'w_3': {}}} if shape == 'hash' else None
    sc = make_scenario(3, config={'synchro_options': 'LIST', 'synchro_timeout': '20'}, rules=rules_xml(apps),
                       groups=groups_of(apps, extra), node_of=NODE_OF)
    w = World(sc)
    w.start_all()
    w.round_robin(7)
    for i, ld in enumerate(loads):
        for name, val in (('l30', 30), ('l60', 60)):
            if ld in (val, 90):
                w.apply(('ustart', i, 'ld:' + name))
                w.drain()
                w.apply(('proc', i, 'ld:' + name, 'run'))
                w.drain()
    if history == 'a-stuck':
        # app:a was requested through Supvisors and never reached RUNNING: the request has been given up (forced
        # FATAL is displayed) while the process is still STARTING
        w.user_rpc(0, 'start_process', ('CONFIG', 'app:a', '', False))
        w.drain()
        w.round_robin(5)
    elif history == 'a-running':
        # the application is partly running: app:a was started on its own
        w.apply(('ustart', 0, 'app:a'))
        w.drain()
        w.apply(('proc', 0, 'app:a', 'run'))
        w.drain()
        w.round_robin(1)
    elif history != 'fresh':
        # the application has run before: app:a (and app:b) ended on their own and are EXITED, not STOPPED
        for ns, how in (('app:a', 'exit_bad'), ('app:b', 'exit_ok'))[:1 if history == 'exited-a' else 2]:
            w.apply(('ustart', 0, ns))
            w.drain()
            w.apply(('proc', 0, ns, 'run'))
            w.drain()
            w.apply(('proc', 0, ns, how))
            w.drain()
        w.round_robin(1)
    w.drain_observations()
    return w


def internal_state(s):
    c = Canon()
    st = (c.walk(s.starter), c.walk(s.stopper), c.walk(s.failure_handler))
    return digest(c.finish(st))


def job(arg):
    loads, dist, shape, strategy, requester, repeats, what = arg[:7]
    history = arg[7] if len(arg) > 7 else 'fresh'
    case = {'loads': loads, 'distribution': dist, 'shape': shape, 'strategy': strategy, 'requester': requester,
            'repeats': repeats, 'what': what, 'history': history}
    out = []
    target = 'app:' + (what.split(':')[1] if ':' in what else 'w_1' if shape == 'hash' else 'a')
    w = build(loads, dist, shape, history)
    before = [observable(s) for s in w.sups]
    internal_before = [internal_state(s) for s in w.sups]
    pred = None
    for _ in range(repeats):
        if what == 'application':
            res = w.user_rpc(requester, 'test_start_application', (strategy, 'app'))
        else:
            res = w.user_rpc(requester, 'test_start_process', (strategy, target))
        if res[0] == 'exc':
            return case, [], 'internal-error', None
        if res[0] == 'fault':
            pred = ('fault', res[1])
        else:
            pred = res[1]
    obs = w.drain_observations()
    if obs['emitted'] or obs['transport'] or any(w.channels.values()):
        out.append({'clause': 'prediction-sends-something', 'signature': 'C19:side-effect:request',
                    'emitted': [(e['req'], e['args']) for e in obs['emitted']][:3]})
    after = [observable(s) for s in w.sups]
    for i, (b, a) in enumerate(zip(before, after)):
        if a != b:
            jb, ja = json.loads(b), json.loads(a)
            # the statement speaks of statuses (process states and per-instance information, application states,
            # loads, jobs): the resolution of a '#' / '@' rule at the first use of an application is not one
            diff = [k for k in jb if jb[k] != ja[k] and k not in ('process_rules', 'application_rules')]
            if not diff:
                continue
            detail = None
            if 'inner' in diff:
                for ident in jb['inner']:
                    for x, y in zip(jb['inner'][ident], ja['inner'][ident]):
                        if x != y:
                            detail = {'process': f"{x['group']}:{x['name']}", 'on': ident,
                                      'changed': {k: (x.get(k), y.get(k)) for k in x if x.get(k) != y.get(k)}}
                            break
                    if detail:
                        break
            out.append({'clause': 'prediction-changes-reported-status',
                        'signature': 'C19:side-effect:status:' + '+'.join(diff), 'observer': i, 'detail': detail})
            break
    internal_after = [internal_state(s) for s in w.sups]
    if internal_after != internal_before:
        out.append({'clause': 'prediction-changes-jobs', 'signature': 'C19:side-effect:jobs'})
    # (2) the prediction is what a real start does when every process starts normally
    if isinstance(pred, list):
        w2 = build(loads, dist, shape, history)
        if what == 'application':
            res2 = w2.user_rpc(requester, 'start_application', (strategy, 'app', False))
        else:
            res2 = w2.user_rpc(requester, 'start_process', (strategy, target, '', False))
        if res2[0] == 'exc':
            return case, out, 'internal-error', None
        targets = {}
        for _ in range(8):
            w2.drain()
            settle(w2)
            w2.drain()
            w2.round_robin(1, settle=settle)
            o2 = w2.drain_observations()
            for e in o2['emitted']:
                if e['req'] == 'START_PROCESS':
                    targets.setdefault(e['args'][0].split(':')[1], []).append(w2.idents[e['dst']])
        predicted = {p['process_name']: sorted(p['running_identifiers']) for p in pred}
        actual = {k: sorted(v) for k, v in targets.items()}
        names = sorted(set(predicted) | set(actual))
        mism = {k: (predicted.get(k, []), actual.get(k, [])) for k in names
                if predicted.get(k, []) != actual.get(k, [])}
        if mism:
            multi = len({p['start_sequence'] for p in app_rules(dist, shape)['programs'] if p['start_sequence'] > 0}) > 1
            out.append({'clause': 'prediction-differs-from-real-start',
                        'signature': 'C19:prediction-mismatch:' + ('multi-sequence' if multi else 'single-sequence'),
                        'mismatch': mism, 'predicted': predicted, 'actual': actual})
        return case, out, 'compared', (predicted, actual)
    return case, out, 'fault' if isinstance(pred, tuple) else 'none', None


def main():
    t = tier()
    out = Outcome('C19', 'exploration')
    loads_all = list(itertools.product([0, 30, 60], repeat=3))
    loads_q = [l for k, l in enumerate(loads_all) if k % 3 == 0]
    jobs = []
    for loads in (loads_q if t == 'quick' else loads_all):
        for dist in ('ALL_INSTANCES', 'SINGLE_INSTANCE', 'SINGLE_NODE'):
            for shape in ('flat', 'seq', 'light', 'init', 'pin', 'hash'):
                for st in STRATS:
                    for requester in (0, 2):
                        jobs.append((loads, dist, shape, st, requester, 1 if requester == 0 else 3, 'application'))
                    if shape in ('flat', 'seq'):
                        for history in ('exited-a', 'exited-ab'):
                            jobs.append((loads, dist, shape, st, 0, 1, 'application', history))
        for st in STRATS:
            jobs.append((loads, 'ALL_INSTANCES', 'flat', st, 1, 2, 'process'))
            # a required program that does not fit, in an application that is partly running (STOP strategy)
            jobs.append((loads, 'ALL_INSTANCES', 'reqfail', st, 0, 1, 'process:b', 'a-running'))
            jobs.append((loads, 'ALL_INSTANCES', 'reqfail', st, 2, 2, 'application', 'fresh'))
            # a forced state hides a process that is still starting
            for shape in ('flat', 'seq'):
                jobs.append((loads, 'ALL_INSTANCES', shape, st, 0, 1, 'application', 'a-stuck'))
    workers = int(os.environ.get('VERIF_WORKERS', '16'))
    ctx = multiprocessing.get_context('fork')
    with ctx.Pool(workers) as pool:
        results = pool.map(job, jobs, chunksize=8)
    kinds = {}
    distinct = set()
    samples = []
    for case, viols, kind, cmp_ in results:
        kinds[kind] = kinds.get(kind, 0) + 1
        if cmp_:
            distinct.add(json.dumps(cmp_, sort_keys=True))
            if len(samples) < 3 and any(cmp_[0].values()) and case['loads'] != (0, 0, 0):
                samples.append({'case': case, 'predicted': cmp_[0], 'actual': cmp_[1]})
        for v in viols:
            out.report(v, {'driver': 'C19', 'config': {}, 'events': [case]})
    cov = out.coverage
    cov['evaluations'] = len(jobs)
    cov['distinct_nontrivial'] = len(distinct)
    cov['outcome_kinds'] = kinds
    cov['samples'] = samples
    cov['rule'] = ('3 instances on 2 nodes brought to OPERATION, load tables built by really starting load processes, '
                   '3 distribution rules x 4 application shapes (one sequence / two sequences with a final wait_exit / a '
                   'leading wait_exit program / program-level identifiers / a pattern spread with # / light with a sequence-0 program), fresh or with programs EXITED by an earlier run, x 6 strategies x 2 requesters (1 and 3 repeated predictions) + test_start_process: '
                   '(1) the full observable snapshot of every instance (all status payloads incl. inner process info, rules) '
                   'and the canonical Starter / Stopper / failure-handler state are compared before / after, and nothing may '
                   'be emitted; (2) a second world rebuilt from the same history performs the real start with every process '
                   'starting normally and the requested placement is compared with the prediction. distinct = distinct '
                   '(prediction, real placement) pairs')
    return out.finish(exhaustive=True)


def replay(payload):
    case = payload['events'][0]
    arg = (tuple(case['loads']), case['distribution'], case['shape'], case['strategy'], case['requester'],
           case['repeats'], case['what'], case.get('history', 'fresh'))
    res = job(arg)
    print(json.dumps(res[1], indent=1, default=str)[:3000])
    print(res[2], res[3])
    return 1 if payload.get('signature') in [v['signature'] for v in res[1]] else 0
