"""C17 - XML-RPC commands are gated by the Supvisors state and fail cleanly (complete finite matrix)."""
import inspect
import os
import json

from .. import world as W
from ..canon import Canon, digest
from ..monitors import observable
from ..report import Outcome, tier
from ..rulesgen import rules_xml, groups_of
from ..world import World, make_scenario

from supvisors.rpcinterface import RPCInterface

BAD_STATE, NOT_MANAGED = 101, 102       # SupvisorsFaults.BAD_SUPVISORS_STATE / NOT_MANAGED (FAULTS_OFFSET = 100)
BAD_NAME, INCORRECT_PARAMETERS = 10, 2  # supervisor Faults

STATES = ['OFF', 'SYNCHRONIZATION', 'ELECTION', 'DISTRIBUTION', 'OPERATION', 'CONCILIATION', 'RESTARTING',
          'SHUTTING_DOWN', 'FINAL']
FROM_DISTRIBUTION = {'DISTRIBUTION', 'OPERATION', 'CONCILIATION', 'RESTARTING', 'SHUTTING_DOWN'}

# the verifier's own gating table, typed from the statement and the ":raises" clauses of the API documentation
GATE = {}
for m in ('get_api_version', 'get_supvisors_state', 'get_all_instances_state_modes', 'get_instance_state_modes',
          'get_master_identifier', 'get_strategies', 'get_statistics_status', 'get_network_info',
          'get_all_instances_info', 'get_instance_info', 'get_all_local_process_info', 'get_local_process_info',
          'get_all_inner_process_info', 'get_inner_process_info', 'change_log_level', 'enable_host_statistics',
          'enable_process_statistics', 'update_collecting_period', 'start_args'):
    GATE[m] = None      # no state condition documented
for m in ('get_all_applications_info', 'get_application_info', 'get_application_rules', 'get_all_process_info',
          'get_process_info', 'get_process_rules', 'get_conflicts', 'restart', 'shutdown'):
    GATE[m] = FROM_DISTRIBUTION
for m in ('start_application', 'test_start_application', 'restart_application', 'start_process', 'test_start_process',
          'start_any_process', 'restart_process', 'update_numprocs', 'enable', 'disable', 'restart_sequence'):
    GATE[m] = {'OPERATION'}
for m in ('stop_application', 'stop_process'):
    GATE[m] = {'OPERATION', 'CONCILIATION'}
GATE['conciliate'] = {'CONCILIATION'}
GATE['end_sync'] = {'SYNCHRONIZATION'}

STRAT = [('CONFIG', None), (1, None), ('BOGUS', INCORRECT_PARAMETERS), (42, INCORRECT_PARAMETERS),
         (1.5, INCORRECT_PARAMETERS)]
APPN = [('A', None), ('zz', BAD_NAME), ('U', NOT_MANAGED)]
APPN_ANY = [('A', None), ('zz', BAD_NAME), ('U', None)]
NSPEC = [('A:a', None), ('A:zz', BAD_NAME), ('zz:a', BAD_NAME), ('A:*', None)]
INST = [('10.0.0.1:25000', None), ('n2', None), ('nope', BAD_NAME)]


def grid(method):
    """[(args, set of acceptable parameter faults)] - empty set = the parameters are valid."""
    def prod(*dims):
        out = [((), set())]
        for d in dims:
            out = [(a + (v,), f | ({c} if c else set())) for a, f in out for v, c in d]
        return out
    W_ = [(False, None)]
    if method in ('start_application', 'restart_application'):
        return prod(STRAT, APPN, W_)
    if method == 'test_start_application':
        return prod(STRAT, APPN)
    if method == 'stop_application':
        return prod(APPN, W_)
    if method in ('start_process', 'restart_process'):
        return prod(STRAT, NSPEC, [('', None)], W_)
    if method == 'test_start_process':
        return prod(STRAT, NSPEC)
    if method == 'start_any_process':
        return prod(STRAT, [('a', None), ('nomatch', None)], [('', None)], W_)
    if method == 'stop_process':
        return prod(NSPEC, W_)
    if method in ('get_application_info', 'get_application_rules'):
        return prod(APPN_ANY)
    if method in ('get_process_info', 'get_process_rules'):
        return prod(NSPEC)
    if method in ('get_instance_state_modes', 'get_network_info', 'get_instance_info', 'get_all_inner_process_info'):
        return prod(INST)
    if method == 'get_inner_process_info':
        return prod(INST, [('A:a', None), ('zz:a', BAD_NAME)])
    if method == 'get_local_process_info':
        return prod([('A:a', None)])
    if method == 'conciliate':
        return prod([('STOP', None), ('USER', None), ('BOGUS', INCORRECT_PARAMETERS), (9, INCORRECT_PARAMETERS)])
    if method == 'end_sync':
        return prod([('', None), ('10.0.0.2:25001', None), ('nope', BAD_NAME)])
    if method == 'update_numprocs':
        return prod([('zzprog', BAD_NAME)], [(2, None)], W_)
    if method in ('enable', 'disable'):
        return prod([('zzprog', BAD_NAME)], W_)
    if method == 'restart_sequence':
        return prod(W_)
    if method == 'change_log_level':
        return prod([('info', None), ('bogus', INCORRECT_PARAMETERS)])
    if method in ('enable_host_statistics', 'enable_process_statistics'):
        return None     # psutil-dependent
    if method == 'update_collecting_period':
        return None
    if method == 'start_args':
        return prod([('A:zz', BAD_NAME)], [('', None)], W_)
    return [((), set())]


RULES = [{'name': 'A', 'start_sequence': 1, 'programs': [{'name': 'a', 'start_sequence': 1, 'expected_loading': 10},
                                                         {'name': 'b', 'start_sequence': 0, 'expected_loading': 10}]}]


def settle_none(w):
    pass


def world_for(user=False, conc=False):
    options = {'synchro_options': 'USER' if user else 'LIST,TIMEOUT', 'synchro_timeout': '15',
               'conciliation_strategy': 'USER'}
    sc = make_scenario(2, config=options, rules=rules_xml(RULES), groups=groups_of(RULES, {'U': {'u': {}}}),
                       nicks=['n1', 'n2'])
    w = World(sc)
    w.start_all()
    return w


def capture_states():
    """Worlds in which instance 0 (Master: n1) and instance 1 (slave) are in each Supvisors state, reached by a
    real history.  Returns {(state, role): blob}."""
    found = {}

    def note(w):
        for i, role in ((0, 'master'), (1, 'slave')):
            st = w.sups[i].fsm.state.name
            if (st, role) not in found and not any(q for q in w.channels.values()):
                found[(st, role)] = W.snapshot(w)

    def fair(w, rounds, settle=None):
        for _ in range(rounds):
            for i in w.live():
                if settle:
                    settle(w)
                w.apply(('tick', i))
                note_after_drain(w)

    def note_after_drain(w):
        while True:
            ks = w.deliverable()
            if not ks:
                break
            w.apply(('deliver',) + ks[0])
        note(w)

    # cold start; A:a is started by the DISTRIBUTION and never reaches RUNNING (slow start): DISTRIBUTION lasts
    w = world_for()
    note(w)
    fair(w, 6)
    # let the start complete: OPERATION
    def run(w):
        for e in w.proc_events(('run', 'stopped')):
            w.apply(e)
    fair(w, 3, settle=run)
    assert w.sups[0].fsm.state.name == 'OPERATION', w.summary()
    op_blob = W.snapshot(w)
    # OPERATION while ANOTHER instance has a job in progress (a slow start requested on the slave, its state & modes
    # publication delivered to the Master): restart_sequence ":raises BAD_SUPVISORS_STATE ... or has jobs in progress"
    wj = W.restore(op_blob)
    wj.user_rpc(1, 'start_process', ('CONFIG', 'A:b', '', False))
    while wj.deliverable():
        wj.apply(('deliver',) + wj.deliverable()[0])
    if wj.sups[0].fsm.state.name == 'OPERATION' and not wj.sups[0].starter.in_progress():
        found[('OPERATION', 'master[jobs-on-a-peer]')] = W.snapshot(wj)
    W.activate(w)
    # CONCILIATION with the USER strategy: a duplicate of A:a started directly on the slave
    w.apply(('ustart', 1, 'A:a'))
    note_after_drain(w)
    w.apply(('proc', 1, 'A:a', 'run'))
    note_after_drain(w)
    fair(w, 3)
    # ending states with a stop that is never acknowledged
    for req in ('restart', 'shutdown'):
        w = W.restore(op_blob)
        w.stop_behaviour[(0, 'A:a')] = 'mute'
        w.user_rpc(1, req)
        note_after_drain(w)
        fair(w, 8)
    W.activate(None)
    return found


class _Collector:
    """Exhaustive membership exploration (E1, real cores) used as a state generator: one snapshot per class
    (instance, local Supvisors state, role, Master known, Master state as last published to it)."""

    def __init__(self):
        from ..drivers.cluster import Cluster
        outer = self

        class Gen(Cluster):
            name = 'c17-generator'

            def observe(self, w, cfg):
                for i in w.live():
                    s = w.sups[i]
                    m = s.state_modes.master_identifier
                    ms = s.state_modes.master_state
                    cls = (s.fsm.state.name, 'master' if m == s.ident else 'slave' if m else 'no-master',
                           ms.name if ms is not None else None)
                    if cls not in outer.found:
                        outer.found[cls] = (i, W.snapshot(w))
                return super().observe(w, cfg)
        self.found = {}
        self.driver = Gen('C17', [])
        self.stats = []

    def configs(self, t):
        from .membership import cfg as mcfg
        specs = [dict(late=(), T=3, D=0), dict(late=(2,), T=4, D=0, warm=4),
                 dict(late=(), T=3, D=0, warm=6, F=1, faults=['crash'])]     # the Master (or a slave) is lost
        if t == 'thorough' and os.environ.get('VERIF_DEEP'):     # not validated on the final tree: exploratory (DESIGN 10.6)
            specs += [dict(late=(), T=4, D=0), dict(late=(2,), T=5, D=0), dict(late=(2,), T=3, D=1, warm=4),
                      dict(late=(), T=3, D=1)]
        cfgs = []
        for sp in specs:
            c = mcfg(3, sp['T'], sp['D'], late=sp['late'], rules=True, warm=sp.get('warm', 0), F=sp.get('F', 0),
                     faults=sp.get('faults', ()),
                     name=f"c17-gen-late{list(sp['late'])}-T{sp['T']}-D{sp['D']}-warm{sp.get('warm', 0)}-F{sp.get('F', 0)}")
            c['nicks'] = ['n1', 'n2', 'n3']
            c['apps'] = RULES
            c['extra_groups'] = {'U': {'u': {}}}
            c['options']['conciliation_strategy'] = 'USER'
            cfgs.append(c)
        return cfgs

    def one(self, c):
        from ..explorer import explore
        self.found = {}
        r = explore(self.driver, c, deviations=c['D'], closure='none')
        if r.error:
            raise RuntimeError(r.error)
        return self.found, {'name': c['name'], 'states': r.states, 'transitions': r.transitions,
                            'validated': r.validated, 'capped': r.capped}

    def run(self, t):
        import multiprocessing
        cfgs = self.configs(t)
        with multiprocessing.get_context('fork').Pool(min(16, len(cfgs))) as pool:
            results = pool.map(_gen_one, cfgs, chunksize=1)
        found = {}
        for f, st in results:       # configurations in their declared order: the pick is deterministic
            for cls, v in f.items():
                found.setdefault(cls, v)
            self.stats.append(st)
        self.found = found
        W.activate(None)
        return found


def _gen_one(c):
    return _Collector().one(c)


def internal_state(s):
    c = Canon()
    st = (c.walk(s.starter), c.walk(s.stopper), c.walk(s.failure_handler), s.fsm.state.name,
          c.walk(s.state_modes.local_state_modes.master_identifier))
    return digest(c.finish(st))


def judge(state, role, idx, blob, method, args, pfaults):
    """One cell of the matrix.  Returns (violations, result of the call)."""
    allowed = GATE.get(method)
    viols = []
    w = W.restore(blob)
    s = w.sups[idx]
    before = observable(s)
    ibefore = internal_state(s)
    others_before = [observable(x) for x in w.sups if x is not s and x.alive]
    w.drain_observations()
    res = w.user_rpc(idx, method, args)
    obs = w.drain_observations()
    kind = res[0]
    code = res[1] if kind == 'fault' else None
    if kind == 'exc':
        # neither served nor rejected with a fault: not a clean failure (the traceback itself is C16's business)
        viols.append({'clause': 'raw-exception-instead-of-fault', 'signature': f'C17:raw-exception:{method}:{state}',
                      'result': [str(x)[:200] for x in res]})
        return viols, res
    gate_open = allowed is None or state in allowed
    if state == 'FINAL' and allowed is FROM_DISTRIBUTION:
        gate_open = None    # "from DISTRIBUTION on": FINAL is left open by the statement
    if method == 'end_sync' and role != 'user-option' and state == 'SYNCHRONIZATION':
        gate_open = None    # needs the USER option: NOT_APPLICABLE otherwise (not a state matter)
    if method == 'restart_sequence' and role == 'master[jobs-on-a-peer]':
        gate_open = False   # jobs in progress on another instance
    if gate_open is False:
        if code != BAD_STATE:
            viols.append({'clause': 'served-outside-documented-states',
                          'signature': f'C17:gate-open:{method}:{state}', 'result': list(res)})
    elif gate_open is True:
        if code == BAD_STATE and not (method == 'restart_sequence' or method in ('restart', 'shutdown')
                                      or method == 'end_sync'):
            viols.append({'clause': 'rejected-in-documented-state',
                          'signature': f'C17:gate-closed:{method}:{state}', 'result': list(res)})
        elif pfaults and kind == 'fault' and code not in pfaults and code != BAD_STATE:
            viols.append({'clause': 'wrong-fault-for-invalid-parameter',
                          'signature': f'C17:param-fault:{method}:{sorted(pfaults)}-expected:{code}',
                          'result': list(res), 'args': list(args)})
        elif pfaults and kind == 'ok':
            viols.append({'clause': 'invalid-parameter-accepted',
                          'signature': f'C17:param-accepted:{method}:{sorted(pfaults)}-expected',
                          'result': str(res)[:100], 'args': list(args)})
    # a rejected request has no effect at all
    if kind == 'fault' and code in (BAD_STATE, BAD_NAME, INCORRECT_PARAMETERS, NOT_MANAGED):
        effects = []
        if [e for e in obs['emitted']]:
            effects.append('emitted:' + obs['emitted'][0]['req'])
        if obs['transport']:
            effects.append('rpc:' + obs['transport'][0]['name'])
        if any(q for q in w.channels.values()) and not any(q for q in W.restore(blob).channels.values()):
            effects.append('message-queued')
        W.activate(w)
        if observable(s) != before:
            effects.append('status-changed')
        if internal_state(s) != ibefore:
            effects.append('jobs-changed')
        if [observable(x) for x in w.sups if x is not s and x.alive] != others_before:
            effects.append('peer-status-changed')
        if obs['fsm']:
            effects.append('state-change')
        if effects:
            viols.append({'clause': 'rejected-request-has-effect',
                          'signature': f'C17:effect:{method}:{code}:{effects[0]}', 'effects': effects,
                          'result': list(res)})
    return viols, res


def all_snapshots(t, cov=None):
    """{(state, role label): (instance index, snapshot)}: hand-made quiescent states, the USER-option state and one
    snapshot per class of the exhaustive membership exploration."""
    cov = cov if cov is not None else {}
    blobs = {k: (0 if k[1].startswith('master') else 1, b) for k, b in capture_states().items()}
    cov['states_reached'] = sorted(f'{s}/{r}' for s, r in blobs)
    # every (local state, role, believed Master state) class reachable in an exhaustive membership exploration
    gen = _Collector()
    for cls, (i, blob) in gen.run(t).items():
        blobs[(cls[0], f'{cls[1]}[master_state={cls[2]}]')] = (i, blob)
    cov['generator'] = gen.stats
    cov['states'] = sum(x['states'] for x in gen.stats)
    cov['transitions'] = sum(x['transitions'] for x in gen.stats)
    cov['traces_validated_against_impl'] = sum(x['validated'] for x in gen.stats)
    cov['classes_from_generator'] = sorted(f'{c[0]}/{c[1]}/{c[2]}' for c in gen.found)
    # USER synchronisation for end_sync
    wu = world_for(user=True)
    for _ in range(3):
        for i in wu.live():
            wu.apply(('tick', i))
            wu.drain()
    if wu.sups[0].fsm.state.name == 'SYNCHRONIZATION':
        blobs[('SYNCHRONIZATION', 'user-option')] = (0, W.snapshot(wu))
    return blobs


def main():
    out = Outcome('C17', 'exploration')
    methods = [n for n, f in inspect.getmembers(RPCInterface, inspect.isfunction) if not n.startswith('_')
               and n != 'get_logger_levels']
    unknown = [m for m in methods if m not in GATE]
    if unknown:
        out.report({'clause': 'method-without-documented-gate', 'signature': 'C17:undocumented:' + unknown[0],
                    'methods': unknown}, {'driver': 'C17', 'config': {}, 'events': []})
    cov = out.coverage
    blobs = all_snapshots(tier(), cov)
    calls = 0
    distinct = set()
    samples = []
    seen_sig = set()
    for (state, role), (idx, blob) in sorted(blobs.items()):
        for method in methods:
            g = grid(method)
            if g is None:
                continue
            for args, pfaults in g:
                viols, res = judge(state, role, idx, blob, method, args, pfaults)
                calls += 1
                case = {'state': state, 'role': role, 'method': method, 'args': list(args)}
                kind = res[0]
                code = res[1] if kind == 'fault' else None
                distinct.add((state, method, kind, code))
                if len(samples) < 4 and kind == 'fault' and method in ('start_application', 'conciliate'):
                    samples.append(dict(case, result=res))
                for v in viols:
                    if v['signature'] not in seen_sig:
                        seen_sig.add(v['signature'])
                        out.report(v, {'driver': 'C17', 'config': {'tier': tier()}, 'events': [case]})
    cov['evaluations'] = calls
    cov['distinct_nontrivial'] = len(distinct)
    cov['methods'] = len(methods)
    cov['samples'] = samples
    cov['rule'] = ('complete matrix: every public method of RPCInterface x every Supvisors state reached by a real history '
                   '(Master and slave; DISTRIBUTION with a slow start, CONCILIATION with the USER strategy, ending states with '
                   'a stop that is never acknowledged) x parameter grid (valid, unknown application / process / instance, '
                   'unmanaged application, unknown strategy as string / int / float); expected fault from the verifier\'s own '
                   'gating table; rejected calls must emit nothing and leave the observable snapshot of every instance and '
                   'the Starter / Stopper / handler state unchanged. distinct = distinct (state, method, outcome, code)')
    out.assumptions += ['status queries in FINAL are left open by the statement ("from DISTRIBUTION on")',
                        'psutil-dependent methods (statistics switches) are not part of the matrix',
                        'restart_sequence / restart / shutdown may also answer BAD_SUPVISORS_STATE for documented reasons '
                        '(jobs in progress, no Master)']
    return out.finish(exhaustive=True)


def replay(payload):
    """Rebuilds the snapshots (deterministic) and re-evaluates the recorded cell of the matrix."""
    case = payload['events'][0]
    blobs = all_snapshots(payload.get('config', {}).get('tier', 'quick'))
    key = (case['state'], case['role'])
    if key not in blobs:
        print('state class not reached any more:', key)
        return 2
    idx, blob = blobs[key]
    args = tuple(case['args'])
    pf = [f for a_, f in (grid(case['method']) or []) if tuple(a_) == args]
    viols, res = judge(case['state'], case['role'], idx, blob, case['method'], args, pf[0] if pf else set())
    print(case, '->', res)
    print(json.dumps(viols, indent=1, default=str)[:2000])
    return 1 if payload.get('signature') in [v['signature'] for v in viols] else 0
