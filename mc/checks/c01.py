"""C01 - connected instances converge on one running Master."""
import os

from ..drivers.cluster import Cluster
from ..report import tier
from .e1 import run_e1, replay_e1
from .membership import cfg, kwargs_of

DRIVER = Cluster('C01', ['C01'])


def configs(t):
    q = [
        cfg(2, 4, 1, cost=4),
        cfg(2, 4, 2, cost=8),
        cfg(3, 3, 0, cost=5),
        cfg(3, 3, 0, so='LIST', cost=5),
        cfg(3, 3, 0, so='STRICT,TIMEOUT', cost=5),
        cfg(3, 3, 0, so='CORE', core=['mm'], cost=5),
        cfg(3, 3, 0, so='CORE,TIMEOUT', core=['zz', 'mm'], cost=5),
        cfg(2, 4, 1, F=1, faults=['crash'], warm=5, cost=4),
        cfg(2, 4, 1, F=1, faults=['crash', 'restart'], warm=5, cost=8),
        cfg(2, 3, 1, F=1, faults=['isolate'], warm=5, cost=8),
        cfg(2, 4, 1, F=1, faults=['isolate'], warm=5, fence=True, cost=8),
        cfg(3, 3, 0, F=1, faults=['crash'], warm=6, cost=8),
        cfg(3, 3, 0, F=1, faults=['crash'], warm=6, core=['zz'], cost=8),
        cfg(3, 2, 0, F=1, faults=['crash', 'restart'], warm=6, crashable=[0, 2], cost=8),
        cfg(3, 2, 0, F=1, faults=['isolate'], warm=6, crashable=[0, 2], cost=8),
        cfg(3, 2, 0, F=1, faults=['isolate'], warm=6, crashable=[2], fence=True, cost=8),
        cfg(2, 4, 1, rules=True, F=1, faults=['crash'], cost=6),
        cfg(3, 3, 0, rules=True, F=1, faults=['crash'], warm=6, cost=8),
        cfg(3, 3, 0, late=[2], warm=6, cost=5),
        cfg(3, 3, 0, late=[2], warm=6, core=['zz'], cost=5),
        # the late joiner is the (only) core instance: the Master elected without it is kept
        cfg(3, 3, 0, late=[2], warm=6, core=['aa'], cost=5),
        # the Master is lost during a DISTRIBUTION that lasts (slow start) and that a newcomer has joined (CHECKED)
        cfg(3, 3, 0, late=[2], rules=True, slow_start=True, F=1, faults=['crash'], crashable=[1], warm=4, prejoin=2, cost=9),
    ]
    if t == 'quick':
        return q
    th = []
    for c in q:
        c2 = dict(c)
        c2['D'] = min(2, c['D'] + 1)
        c2['T'] = c['T'] + 1
        if c['n'] == 2 and c['F']:
            c2['F'] = 2
        c2['name'] = c['name'] + '-deep'
        c2['cost'] = c['cost'] * 10
        th.append(c2)
    return q + th


def main():
    t = tier()
    cfgs = configs(t)
    cap = int(os.environ.get('VERIF_CAP_S', '0')) or (None if t == 'quick' else 2400)
    for c in cfgs:
        c['max_seconds'] = cap
    out, complete = run_e1(
        'C01', [(DRIVER, cfgs, kwargs_of('sparse' if t == 'quick' else 'all'))],
        rule='explicit-state exploration of cold starts, late joins, crashes, restarts (also quicker than detection) and '
             'isolations/rejoins over the option sets (LIST, STRICT, CORE, TIMEOUT, core_identifiers, auto_fence, nick '
             'identifiers whose lowest value is declared last); fair closure from the explored states: every group of '
             'mutually reachable non-isolated instances agrees on one Master of the group, seen RUNNING by all and by itself; '
             'single-fault histories are compared with an independent election rule; every automatic start/stop request '
             'must be emitted by an instance that regards itself as the Master',
        assumptions=['agreement is judged when the synchronisation condition can be met (TIMEOUT or required instances alive)',
                     'the reference election rule is applied to single-fault histories from an agreed situation only',
                     'USER synchronisation (end_sync) is exercised by C02/C16, not judged here'])
    return out.finish(exhaustive=complete)


def replay(payload):
    return replay_e1(payload, {'cluster': DRIVER})
