"""Configuration library of the membership explorations shared by C01, C02, C07, C08 (and C16)."""

NICKS3 = ['zz', 'mm', 'aa']   # lowest nick identifier is declared last


def cfg(n, T, D, F=0, faults=(), so='LIST,TIMEOUT', fence=False, inact=2, strategy=None, core=None,
        requests=(), rules=False, late=(), K=12, cost=1, full=False, R=None, crashable=None, name=None,
        restart_after=0, conc=None, stallable=None, warm=0, slow_start=False, prejoin=0):
    options = {'synchro_options': so, 'auto_fence': 'true' if fence else 'false', 'inactivity_ticks': str(inact),
               'synchro_timeout': '15'}
    if strategy:
        options['supvisors_failure_strategy'] = strategy
    if conc:
        options['conciliation_strategy'] = conc
    c = {'n': n, 'T': T, 'D': D, 'F': F, 'faults': list(faults), 'options': options, 'nicks': NICKS3[:n] if n == 3 else ['zz', 'aa'],
         'core': list(core or []), 'requests': list(requests), 'rules': bool(rules), 'late': list(late), 'K': K,
         'cost': cost, 'full': full, 'restart_after': restart_after, 'warm': warm, 'slow_start': slow_start,
         'prejoin': prejoin}
    if R is not None:
        c['R'] = R
    if crashable is not None:
        c['crashable'] = list(crashable)
    if stallable is not None:
        c['stallable'] = [list(x) for x in stallable]
    c['name'] = name or f'n{n}-{"warm" + str(warm) + "-" if warm else ""}T{T}-D{D}-F{F}-{"+".join(faults) or "nofault"}-{so}' + \
        (f'-{strategy}' if strategy else '') + ('-fence' if fence else '') + (f'-I{inact}' if inact != 2 else '') + \
        (f'-core{"".join(core)}' if core else '') + (f'-req{"+".join(requests)}' if requests else '') + \
        ('-rules' if rules else '') + ('-slowstart' if slow_start else '') + (f'-late{"".join(map(str, late))}' if late else '') + (f'-prejoin{prejoin}' if prejoin else '')
    return c


def kwargs_of(closure):
    def f(c):
        return {'deviations': c['D'], 'closure': closure, 'max_seconds': c.get('max_seconds'),
                'max_states': c.get('max_states')}
    return f
