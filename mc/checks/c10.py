"""C10 - every start / stop job terminates in bounded ticks whatever gets lost."""
import math
import os

from supervisor.states import ProcessStates as PS

from ..drivers.jobs import Jobs, ledger, RUNNING_LIKE, gt_state
from ..monitors import internal_errors, process_view
from ..report import tier
from .c03 import app, prog
from .e1 import run_e1, replay_e1


class TermJobs(Jobs):
    name = 'termjobs'
    cut_on_known_closure = False    # the closure is a what-if probe: the exploration goes on behind a known finding

    def bound(self, cfg):
        secs = cfg.get('secs', 1)
        inact = int((cfg.get('options') or {}).get('inactivity_ticks', 2))
        return (2 + math.ceil(secs / 5) + inact + 2) * cfg.get('steps', 1) + 1

    def closure_check(self, w, cfg):
        """No further process event is ever produced: the jobs must still end within the bound."""
        if w.budget['trig'] < len(cfg.get('triggers', [])):
            return None
        B = self.bound(cfg)
        w.round_robin(B)        # no settle: nothing answers any more
        obs = w.drain_observations()
        if internal_errors(obs):
            return None
        w.violations = []
        L = ledger(w)
        out = {}

        def add(v):
            out.setdefault(v['signature'], v)
        for i in w.live():
            s = w.sups[i]
            sm = s.rpc.get_supvisors_state()
            if sm['starting_jobs'] or sm['stopping_jobs']:
                add({'clause': 'jobs-still-in-progress', 'signature': 'C10:jobs-pending', 'observer': i,
                        'starting': sm['starting_jobs'], 'stopping': sm['stopping_jobs'], 'rounds': B})
        rv = next(m for m in w.monitors if hasattr(m, 'rv')).rv
        # abandoned starts show FATAL, abandoned stops STOPPED, with a reason, on every live instance
        for (sender, ns), t in L.starts.items():
            if not w.sups[sender].alive or ns not in rv.procs:
                continue
            st = gt_state(w, t, ns)
            if st == PS.RUNNING and not rv.procs[ns]['wait_exit']:
                continue
            if st == PS.RUNNING and rv.procs[ns]['wait_exit'] and w.job_kind == 'process':
                continue
            if (sender, ns, t) in L.stops:
                continue
            last = [o for o in L.order if o[2] == ns][-1]
            if last[0] != 'start':
                continue
            for i in w.live():
                pv = process_view(w.sups[i]).get(ns)
                if pv is None:
                    continue
                if st in (PS.STARTING, PS.BACKOFF, PS.STOPPED) or st is None:
                    if pv['statename'] != 'FATAL':
                        where = 'on-requester' if i == sender else 'on-target' if i == t else 'on-third'
                        if not w.sups[t].alive:
                            where += ':target-lost'
                        add({'clause': 'abandoned-start-not-fatal',
                                'signature': f'C10:start-shown:{pv["statename"]}:{where}',
                                'observer': i, 'process': ns, 'target': t, 'truth': str(st)})
                        continue
                    desc = self.reason(w.sups[i], ns)
                    if not desc:
                        add({'clause': 'abandoned-start-without-reason', 'signature': 'C10:start-no-reason',
                             'observer': i, 'process': ns})
        for (sender, ns, t), _ in L.stops.items():
            if not w.sups[sender].alive:
                continue
            st = gt_state(w, t, ns)
            if st in (PS.RUNNING, PS.STOPPING, PS.STARTING, PS.BACKOFF):
                last = [o for o in L.order if o[2] == ns][-1]
                if last[0] != 'stop':
                    continue
                for i in w.live():
                    pv = process_view(w.sups[i]).get(ns)
                    if pv is not None and pv['statename'] != 'STOPPED':
                        where = 'on-requester' if i == sender else 'on-target' if i == t else 'on-third'
                        add({'clause': 'abandoned-stop-not-stopped',
                                'signature': f'C10:stop-shown:{pv["statename"]}:{where}',
                                'observer': i, 'process': ns, 'target': t, 'truth': str(st)})
        return list(out.values())

    @staticmethod
    def reason(s, ns):
        a, p = ns.split(':')
        proc = s.context.applications[a].processes[p]
        return proc.get_applicable_details()[1]


DRIVER = TermJobs('C10', ['C10'])


def base(name, apps, **kw):
    c = {'n': 2, 'apps': apps, 'T': 3, 'D': 0, 'behaviours': [], 'name': name, 'cost': 3}
    c.update(kw)
    return c


def sup(secs):
    return {'_sup': {'startsecs': secs, 'stopwaitsecs': secs}}


def configs(t, deep_for_c16=False):
    out = []
    for secs in (1, 6, 11):
        A = app('A', 0, [dict(prog('a', 1, required=True), **sup(secs)), dict(prog('b', 2), **sup(secs))], 'CONTINUE')
        for who in (0, 1):
            # stuck in STARTING / BACKOFF: the acknowledgement comes, nothing else
            out.append(base(f'start-stuck-{secs}s-on{who}', [A], secs=secs, steps=2,
                            triggers=[['rpc', who, 'start_application', ['CONFIG', 'A', False]]],
                            behaviours=['backoff', 'retry'], backoffs=3, T=3))
        # never spawning: the request is not even acknowledged
        out.append(base(f'start-mute-{secs}s', [A], secs=secs, steps=2, mute=[[0, 'A:a', 'start'], [1, 'A:a', 'start']],
                        triggers=[['rpc', 1, 'start_application', ['LESS_LOADED', 'A', False]]], T=3))
        # the same with the requester as the target (the forced event comes back into the very loop that gave up)
        out.append(base(f'start-mute-local-{secs}s', [A], secs=secs, steps=2, mute=[[0, 'A:a', 'start'], [0, 'A:b', 'start']],
                        triggers=[['rpc', 0, 'start_application', ['CONFIG', 'A', False]]], T=3))
        # stop: stuck in STOPPING / never acknowledged
        out.append(base(f'stop-stuck-{secs}s', [A], secs=secs, steps=2,
                        setup=[['rpc', 0, 'start_application', ['LESS_LOADED', 'A', False]]],
                        triggers=[['rpc', 1, 'stop_application', ['A', False]]], T=3))
        out.append(base(f'stop-mute-{secs}s', [A], secs=secs, steps=2,
                        setup=[['rpc', 0, 'start_application', ['CONFIG', 'A', False]]],
                        mute=[[0, 'A:a', 'stop'], [0, 'A:b', 'stop']],
                        triggers=[['rpc', 0, 'stop_application', ['A', False]]], T=3))
    A1 = app('A', 0, [prog('a', 1, required=True), prog('b', 2)], 'CONTINUE')
    # the requester is not the target (both orders of requester / target)
    for who, tgt in ((0, 1), (1, 0)):
        At = app('A', 0, [prog('a', 1, identifiers=f'10.0.0.{tgt + 1}:{25000 + tgt}'), prog('b', 2)], 'CONTINUE')
        out.append(base(f'start-mute-remote-{who}to{tgt}', [At], steps=2, mute=[[tgt, 'A:a', 'start']],
                        triggers=[['rpc', who, 'start_application', ['CONFIG', 'A', False]]], T=3))
        out.append(base(f'stop-mute-remote-{who}to{tgt}', [At], steps=2, mute=[[tgt, 'A:a', 'stop']],
                        setup=[['rpc', who, 'start_application', ['CONFIG', 'A', False]]],
                        triggers=[['rpc', who, 'stop_application', ['A', False]]], T=3))
    # target lost at any point of the job
    out.append(base('start-target-lost', [app('A', 0, [prog('a', 1, identifiers='10.0.0.2:25001'), prog('b', 2)])],
                    steps=2, triggers=[['rpc', 0, 'start_application', ['CONFIG', 'A', False]]], behaviours=['run'],
                    F=1, faults=['crash'], crashable=[1], nicks=['aa', 'zz'], T=3, cost=5))
    out.append(base('stop-target-lost', [A1], steps=2, setup=[['rpc', 0, 'start_application', ['LESS_LOADED', 'A', False]]],
                    triggers=[['rpc', 0, 'stop_application', ['A', False]]], behaviours=['stopped'],
                    F=1, faults=['crash'], crashable=[1], nicks=['aa', 'zz'], T=3, cost=5))
    # SINGLE_INSTANCE / SINGLE_NODE: the instance chosen for the whole application is lost during the first sub-sequence
    for dist in ('SINGLE_INSTANCE', 'SINGLE_NODE'):
        out.append(base(f'start-{dist}-target-lost',
                        [app('A', 0, [prog('a', 1), prog('b', 2), prog('c', 3)], 'CONTINUE', distribution=dist,
                             identifiers='10.0.0.2:25001')],
                        steps=3, triggers=[['rpc', 0, 'start_application', ['CONFIG', 'A', False]]], behaviours=['run'],
                        F=1, faults=['crash'], crashable=[1], nicks=['aa', 'zz'], T=3, cost=5))
    # several commands of one sequence pending on the lost instance
    A2x = app('A', 0, [prog('a', 1, identifiers='10.0.0.2:25001'), prog('b', 1, identifiers='10.0.0.2:25001'),
                       prog('c', 1, identifiers='10.0.0.2:25001'), prog('e', 2)], 'CONTINUE')
    out.append(base('start-three-on-lost-target', [A2x], steps=2, mute=[[1, 'A:a', 'start'], [1, 'A:b', 'start'],
                                                                         [1, 'A:c', 'start']],
                    triggers=[['rpc', 0, 'start_application', ['CONFIG', 'A', False]]], behaviours=['run'],
                    F=1, faults=['crash'], crashable=[1], nicks=['aa', 'zz'], T=3, cost=5))
    out.append(base('stop-three-on-lost-target', [A2x], steps=2,
                    setup=[['rpc', 0, 'start_application', ['CONFIG', 'A', False]]],
                    triggers=[['rpc', 0, 'stop_application', ['A', False]]], behaviours=[],
                    F=1, faults=['crash'], crashable=[1], nicks=['aa', 'zz'], T=3, cost=5))
    # events delayed by ticks (deviations) and single process jobs
    out.append(base('start-delayed-D1', [A1], steps=2, D=1, triggers=[['rpc', 0, 'start_application', ['CONFIG', 'A', False]]],
                    behaviours=['run', 'backoff', 'retry'], backoffs=2, T=3, cost=6))
    out.append(base('start_process-stuck', [A1], steps=1, job_kind='process',
                    triggers=[['rpc', 1, 'start_process', ['CONFIG', 'A:b', '', False]]], behaviours=['backoff'], T=3))
    out.append(base('restart_process-stuck', [A1], steps=2, job_kind='process',
                    setup=[['rpc', 0, 'start_process', ['CONFIG', 'A:b', '', False]]],
                    triggers=[['rpc', 1, 'restart_process', ['CONFIG', 'A:b', '', False]]], behaviours=['stopped'], T=3))
    At3 = app('A', 0, [prog('a', 1, identifiers='10.0.0.2:25001'), prog('b', 2)], 'CONTINUE')
    out.append(base('n3-start-mute-remote', [At3], n=3, steps=2, mute=[[1, 'A:a', 'start']],
                    triggers=[['rpc', 0, 'start_application', ['CONFIG', 'A', False]]], T=2, cost=6))
    out.append(base('n3-stop-mute-remote', [At3], n=3, steps=2, mute=[[1, 'A:a', 'stop']],
                    setup=[['rpc', 2, 'start_application', ['CONFIG', 'A', False]]],
                    triggers=[['rpc', 0, 'stop_application', ['A', False]]], T=2, cost=6))
    out.append(base('n3-start-stuck', [A1], n=3, steps=2,
                    triggers=[['rpc', 2, 'start_application', ['LESS_LOADED', 'A', False]]], behaviours=['backoff'], T=2,
                    cost=6))
    # deeper variants: exploratory only (VERIF_DEEP=1), see DESIGN.md 10.6 (unclassified signals: the closure bound B does
    # not account for deviations); C16 still uses them for its internal-error monitor (VERIF_DEEP not needed there)
    if t == 'thorough' and (os.environ.get('VERIF_DEEP') or deep_for_c16):
        deep = []
        for c in out:
            c2 = dict(c)
            c2['D'] = min(2, c['D'] + 1)
            c2['T'] = c['T'] + 2
            c2['name'] = c['name'] + '-deep'
            c2['cost'] = c['cost'] * 10
            deep.append(c2)
        out += deep
    return out


def kwargs_of(c):
    return {'deviations': c['D'], 'closure': 'all', 'max_seconds': c.get('max_seconds')}


def main():
    t = tier()
    cfgs = configs(t)
    cap = int(os.environ.get('VERIF_CAP_S', '0')) or (None if t == 'quick' else 2400)
    for c in cfgs:
        c['max_seconds'] = cap
    out, complete = run_e1(
        'C10', [(DRIVER, cfgs, kwargs_of)],
        rule='explicit-state exploration of start and stop jobs (application of 2 sequenced programs, single process, '
             'restart) for startsecs / stopwaitsecs in {1,6,11}, with processes that never spawn, stay STARTING, back off '
             'repeatedly, stay STOPPING or never acknowledge, events delayed by ticks, target lost at any point; from every '
             'explored state the worst-case closure (no process event is produced any more) runs B = (2 + ceil(secs/5) + '
             'inactivity_ticks + 2) rounds per sequence step: no job may remain in progress, abandoned starts show FATAL and '
             'abandoned stops STOPPED with a reason on every live instance',
        assumptions=['the wait_exit program that never exits is the documented exception and is not exercised here'])
    return out.finish(exhaustive=complete)


def replay(payload):
    return replay_e1(payload, {'termjobs': DRIVER})
