"""C05 - conflicts are detected and conciliated exactly as the strategy says."""
import os

from supervisor.states import ProcessStates as PS

from ..drivers.jobs import Jobs, RUNNING_LIKE, gt_state, ledger
from ..monitors import process_view, internal_errors, master_of
from ..report import tier
from .c03 import app, prog
from .e1 import run_e1, replay_e1

STRATEGIES = ['SENICIDE', 'INFANTICIDE', 'USER', 'STOP', 'RESTART', 'RUNNING_FAILURE']


def copies(w, ns):
    """Ground truth: instances where ns runs (STARTING / BACKOFF / RUNNING), with the round of their start."""
    out = {}
    for i in w.live():
        try:
            p = w.sups[i].proc(ns)
        except KeyError:
            continue
        if p.state in RUNNING_LIKE:
            out[i] = p.gt_started_round
    return out


class ConciliationMonitor:
    def __init__(self, strategy, managed):
        self.strategy = strategy
        self.managed = set(managed)       # namespecs of managed applications
        self.plan = {}                    # ns -> expected stop targets, fixed when the first stop of a wave is seen
        self.reelected = False            # an election took place: jobs are aborted by design, placement not judged

    def key(self, c):
        return ('c05', tuple(sorted((k, tuple(sorted(v)) if v is not None else None) for k, v in self.plan.items())),
                self.reelected)

    def on_fsm_state(self, w, idx, old, new):
        if new in ('ELECTION', 'SYNCHRONIZATION', 'OFF'):
            self.reelected = True

    def expected(self, w, ns):
        cp = copies(w, ns)
        if len(cp) < 2:
            return None
        if self.strategy == 'SENICIDE':
            youngest = max(cp.values())
            keep = [i for i, r in cp.items() if r == youngest]
            return set(cp) - set(keep[:1]) if len(keep) == 1 else None   # equal ages: not judged
        if self.strategy == 'INFANTICIDE':
            oldest = min(cp.values())
            keep = [i for i, r in cp.items() if r == oldest]
            return set(cp) - set(keep[:1]) if len(keep) == 1 else None
        if self.strategy in ('STOP', 'RESTART', 'RUNNING_FAILURE'):
            return set(cp)
        return set()

    def on_emit(self, w, rec):
        if rec['req'] not in ('STOP_PROCESS', 'START_PROCESS') or rec['cause']:
            return
        ns, t, sender = rec['args'][0], rec['dst'], rec['src']
        if rec['req'] == 'STOP_PROCESS':
            if self.strategy == 'USER':
                w.violations.append({'clause': 'USER-strategy-stops-something', 'signature': 'C05:USER:stop',
                                     'process': ns, 'target': t})
                return
            s = w.sups[sender]
            conflicts = {f"{p['application_name']}:{p['process_name']}" for p in s.rpc.get_conflicts()} \
                if s.fsm.state.name in ('CONCILIATION', 'OPERATION', 'DISTRIBUTION') else set()
            in_plan = ns in self.plan
            if ns not in conflicts and not in_plan:
                if self.strategy == 'RUNNING_FAILURE':
                    return   # the running failure strategy of the program may stop its whole application
                w.violations.append({'clause': 'stop-of-non-conflicting-process', 'signature': 'C05:stop-non-conflicting',
                                     'process': ns, 'target': t, 'conflicts': sorted(conflicts)})
                return
            if not in_plan:
                exp = self.expected(w, ns)
                if exp is None:
                    self.plan[ns] = None
                else:
                    self.plan[ns] = set(exp)
            exp = self.plan.get(ns)
            if exp is not None and t not in exp:
                w.violations.append({'clause': 'wrong-copy-stopped', 'signature': f'C05:wrong-copy:{self.strategy}',
                                     'process': ns, 'target': t, 'expected': sorted(exp),
                                     'copies': copies(w, ns)})

    def after_step(self, w, ev):
        # a wave ends when the conflict is gone in ground truth: a later duplicate is a new conflict
        for ns in [k for k in self.plan]:
            if len(copies(w, ns)) < 2:
                del self.plan[ns]
        # detection: the Master with no job and a conflict moves to CONCILIATION by its next evaluation
        if ev[0] != 'tick':
            return
        i = ev[1]
        s = w.sups[i]
        if not s.alive or master_of(s) != s.ident:
            return
        state = s.fsm.state.name
        if state == 'OPERATION':
            sm = s.rpc.get_supvisors_state()
            idle = not s.starter.in_progress() and not s.stopper.in_progress()
            if idle and s.rpc.get_conflicts():
                w.violations.append({'clause': 'conflict-not-conciliated', 'signature': 'C05:not-detected',
                                     'master': i, 'conflicts': [p['process_name'] for p in s.rpc.get_conflicts()]})
        if state == 'CONCILIATION':
            # unmanaged duplicates never trigger it: there must be (or have been) a managed conflict
            pass


class ConcJobs(Jobs):
    name = 'concjobs'

    def monitors(self, w, cfg, rv):
        mons = super().monitors(w, cfg, rv)
        managed = [ns for ns in rv.procs]
        return [ConciliationMonitor(cfg['strategy'], managed)] + mons

    def build(self, cfg):
        w = super().build(cfg)
        for m in w.monitors:
            if isinstance(m, ConciliationMonitor):
                m.reelected = False     # the elections of the warm-up do not count
        return w

    def wants_closure(self, w, ev, cfg):
        return True

    def closure_check(self, w, cfg):
        strategy = cfg['strategy']
        dup_before = {ns: copies(w, ns) for ns in cfg['watch']}
        had_managed_dup = any(len(c) >= 2 for ns, c in dup_before.items() if not ns.startswith('U:'))
        w.round_robin(cfg.get('K', 10), settle=self.settle)
        obs = w.drain_observations()
        if internal_errors(obs):
            return None
        viols = [v for v in w.violations if v['signature'].startswith('C05')]
        w.violations = []
        if viols:
            return viols[0]
        states = {i: w.sups[i].fsm.state.name for i in w.live()}
        if any(st in ('OFF', 'SYNCHRONIZATION', 'ELECTION', 'DISTRIBUTION') for st in states.values()):
            return None    # membership trouble (message delays): judged by C08
        dup_after = {ns: copies(w, ns) for ns in cfg['watch']}
        managed_dup = {ns: c for ns, c in dup_after.items() if len(c) >= 2 and not ns.startswith('U:')}
        if strategy == 'USER':
            want = 'CONCILIATION' if managed_dup else 'OPERATION'
            for i, st in states.items():
                if st != want:
                    return {'clause': 'USER-strategy-state', 'signature': f'C05:USER:state:{st}', 'instance': i,
                            'expected': want, 'duplicates': {k: sorted(v) for k, v in managed_dup.items()}}
            return None
        if managed_dup:
            return {'clause': 'conflict-left', 'signature': f'C05:conflict-left:{strategy}',
                    'duplicates': {k: sorted(v) for k, v in managed_dup.items()}}
        for i, st in states.items():
            if st != 'OPERATION':
                return {'clause': 'not-back-in-operation', 'signature': f'C05:state-after:{st}', 'instance': i}
        for i in w.live():
            if w.sups[i].rpc.get_conflicts():
                return {'clause': 'conflict-still-reported', 'signature': 'C05:conflict-reported', 'instance': i}
        # final placement per strategy (only when a managed duplicate existed in the explored state and no
        # election aborted the jobs in between)
        if next(m for m in w.monitors if isinstance(m, ConciliationMonitor)).reelected:
            return None
        for ns, before in dup_before.items():
            if ns.startswith('U:') or len(before) < 2:
                continue
            after = dup_after[ns]
            if strategy == 'SENICIDE':
                young = max(before.values())
                keep = [i for i, r in before.items() if r == young]
                if len(keep) == 1 and set(after) != set(keep):
                    return {'clause': 'final-placement', 'signature': 'C05:final:SENICIDE', 'process': ns,
                            'running_on': sorted(after), 'expected': keep, 'copies': before}
            elif strategy == 'INFANTICIDE':
                old = min(before.values())
                keep = [i for i, r in before.items() if r == old]
                if len(keep) == 1 and set(after) != set(keep):
                    return {'clause': 'final-placement', 'signature': 'C05:final:INFANTICIDE', 'process': ns,
                            'running_on': sorted(after), 'expected': keep, 'copies': before}
            elif strategy == 'STOP':
                if after:
                    return {'clause': 'final-placement', 'signature': 'C05:final:STOP', 'process': ns,
                            'running_on': sorted(after)}
            elif strategy == 'RESTART':
                if len(after) != 1:
                    return {'clause': 'final-placement', 'signature': 'C05:final:RESTART', 'process': ns,
                            'running_on': sorted(after)}
            elif strategy == 'RUNNING_FAILURE':
                rfs = cfg.get('rfs', 'CONTINUE')
                want_n = {'CONTINUE': 0, 'RESTART_PROCESS': 1, 'STOP_APPLICATION': 0, 'RESTART_APPLICATION': 1}[rfs]
                if len(after) != want_n:
                    return {'clause': 'final-placement', 'signature': f'C05:final:RUNNING_FAILURE:{rfs}',
                            'process': ns, 'running_on': sorted(after), 'expected_copies': want_n}
        return None


DRIVER = ConcJobs('C05', ['C05'])


def base(name, strategy, rfs='CONTINUE', **kw):
    A = app('A', 0, [prog('a', 1, running_failure_strategy=rfs), prog('b', 1)])
    c = {'n': 3, 'apps': [A], 'extra_groups': {'U': {'u': {}}}, 'strategy': strategy, 'rfs': rfs,
         'options': {'conciliation_strategy': strategy}, 'job_kind': 'repair', 'watch': ['A:a', 'A:b', 'U:u'],
         # the first copies are old: started through Supvisors / directly, then three quiet rounds
         'setup': [['rpc', 0, 'start_process', ['CONFIG', 'A:a', '', False]], ['ustart', 1, 'U:u'], ['ustart', 2, 'U:u'],
                   ['tick', 0], ['tick', 1], ['tick', 2], ['tick', 0], ['tick', 1], ['tick', 2], ['tick', 0], ['tick', 1],
                   ['tick', 2]],
         'user_events': [['ustart', 2, 'A:a']], 'U': 1,
         'behaviours': ['run', 'stopped'], 'T': 2, 'D': 0, 'triggers': [], 'name': name, 'cost': 5, 'K': 10}
    c.update(kw)
    return c


def configs(t):
    out = []
    for st in STRATEGIES:
        out.append(base(f'duplicate-{st}', st))
    for rfs in ('RESTART_PROCESS', 'STOP_APPLICATION', 'RESTART_APPLICATION'):
        out.append(base(f'duplicate-RUNNING_FAILURE-{rfs}', 'RUNNING_FAILURE', rfs=rfs))
    # the instance whose copy is being stopped is lost while the copy is STOPPING (slow stop)
    quiet = [['tick', 0], ['tick', 1], ['tick', 2]] * 3
    out.append(base('duplicate-INFANTICIDE-loss-while-stopping', 'INFANTICIDE', extra_groups={}, watch=['A:a'],
                    setup=[['rpc', 0, 'start_process', ['CONFIG', 'A:a', '', False]]] + quiet,
                    user_events=[['ustart', 2, 'A:a']], behaviours=['run'], F=1, faults=['crash'], crashable=[2], T=3, K=12, cost=9))
    out.append(base('duplicate-SENICIDE-loss-while-stopping', 'SENICIDE', extra_groups={}, watch=['A:a'],
                    setup=[['ustart', 2, 'A:a']] + quiet,
                    user_events=[['ustart', 1, 'A:a']], behaviours=['run'], F=1, faults=['crash'], crashable=[2], T=3, K=12, cost=9))
    # two simultaneous conflicts and a third copy
    two_setup = [['rpc', 0, 'start_process', ['CONFIG', 'A:a', '', False]],
                 ['rpc', 0, 'start_process', ['CONFIG', 'A:b', '', False]]]
    out.append(base('two-conflicts-SENICIDE', 'SENICIDE', n=2, extra_groups={}, watch=['A:a', 'A:b'],
                    setup=two_setup + [['tick', i] for i in (0, 1)] * 3,
                    user_events=[['ustart', 1, 'A:a'], ['ustart', 1, 'A:b']], T=2, U=2))
    for st in ('STOP', 'RESTART', 'RUNNING_FAILURE'):
        out.append(base(f'two-conflicts-{st}', st, n=2, extra_groups={}, watch=['A:a', 'A:b'],
                        setup=two_setup + [['tick', i] for i in (0, 1)] * 3,
                        user_events=[['ustart', 1, 'A:a'], ['ustart', 1, 'A:b']], T=2, U=2))
    out.append(base('three-copies-INFANTICIDE', 'INFANTICIDE', extra_groups={}, watch=['A:a'],
                    setup=[['rpc', 0, 'start_process', ['CONFIG', 'A:a', '', False]]] + [['tick', i] for i in (0, 1, 2)] * 3 +
                          [['ustart', 1, 'A:a']] + [['tick', i] for i in (0, 1, 2)] * 0,
                    user_events=[['ustart', 2, 'A:a']], T=2, U=1, behaviours=['run', 'stopped']))
    out.append(base('duplicate-STOP-D1', 'STOP', D=1, T=2, cost=10, user_events=[['ustart', 1, 'A:a']], U=1, n=2,
                    setup=[['rpc', 0, 'start_process', ['CONFIG', 'A:a', '', False]]] + [['tick', i] for i in (0, 1)] * 3,
                    extra_groups={}, watch=['A:a']))
    out.append(base('duplicate-RESTART-D1', 'RESTART', D=1, T=2, cost=10, user_events=[['ustart', 1, 'A:a']], U=1, n=2,
                    setup=[['rpc', 0, 'start_process', ['CONFIG', 'A:a', '', False]]] + [['tick', i] for i in (0, 1)] * 3,
                    extra_groups={}, watch=['A:a']))
    if t == 'thorough':
        deep = []
        for c in out:
            c2 = dict(c)
            c2['D'] = min(2, c['D'] + 1)
            c2['T'] = c['T'] + 1
            c2['name'] = c['name'] + '-deep'
            c2['cost'] = c['cost'] * 10
            deep.append(c2)
        out += deep
    return out


def kwargs_of(c):
    return {'deviations': c['D'], 'closure': 'sparse', 'max_seconds': c.get('max_seconds')}


def main():
    t = tier()
    cfgs = configs(t)
    cap = int(os.environ.get('VERIF_CAP_S', '0')) or (None if t == 'quick' else 2400)
    for c in cfgs:
        c['max_seconds'] = cap
    out, complete = run_e1(
        'C05', [(DRIVER, cfgs, kwargs_of)],
        rule='explicit-state exploration of duplicates created by direct Supervisor starts on a second / third instance (managed '
             'and unmanaged application, 1-2 simultaneous conflicts, 2-3 copies) for the six conciliation strategies and the '
             'running failure strategies of the program, with all interleavings of stop acknowledgements, new copies and ticks; '
             'every stop request is compared with the reference computed from the true start rounds, the Master must enter '
             'CONCILIATION by its next evaluation, and the fair closure must end without conflict, in OPERATION (USER: in '
             'CONCILIATION as long as a duplicate exists) and with the final placement of the strategy',
        assumptions=['copies are started at least two tick rounds apart (ages are only defined at tick granularity)',
                     'copies of equal age are not judged'])
    return out.finish(exhaustive=complete)


def replay(payload):
    return replay_e1(payload, {'concjobs': DRIVER})
