"""C11 - process status is a deterministic synthesis of per-instance reports (E2)."""
import itertools

from .. import world as _w   # installs the virtual clock (strictly increasing reads)
from ..refmodels.process_ref import ProcessRef, STOPPED, STARTING, RUNNING, BACKOFF, STOPPING, EXITED, FATAL, UNKNOWN
from ..report import Outcome, tier, seed
from ..seq import Spec, run_specs, rebuild, checked_apply

from supvisors.process import ProcessStatus, ProcessRules

STATES = [STOPPED, STARTING, RUNNING, BACKOFF, STOPPING, EXITED, FATAL, UNKNOWN]
NAMES = {STOPPED: 'STOPPED', STARTING: 'STARTING', RUNNING: 'RUNNING', BACKOFF: 'BACKOFF', STOPPING: 'STOPPING',
         EXITED: 'EXITED', FATAL: 'FATAL', UNKNOWN: 'UNKNOWN'}


class _Log:
    level = 50

    def __getattr__(self, n):
        if n.startswith('__'):
            raise AttributeError(n)
        return lambda *a, **k: None


class _SD:
    def update_extra_args(self, *a):
        raise KeyError

    def autorestart(self, *a):
        raise KeyError


class _Mapper:
    def __init__(self, ids):
        self.instances = {i: None for i in ids}

    def get_nick_identifier(self, i):
        return i


class _Sv:
    def __init__(self, ids):
        self.logger = _Log()
        self.supervisor_data = _SD()
        self.mapper = _Mapper(ids)


def full_info(state, t):
    return {'name': 'p', 'group': 'g', 'state': state, 'statename': NAMES[state], 'start': 0, 'stop': 0, 'now': int(t),
            'pid': 0, 'description': '', 'spawnerr': '', 'expected': True, 'now_monotonic': t,
            'start_monotonic': 0.0, 'stop_monotonic': 0.0, 'extra_args': '', 'startsecs': 1, 'stopwaitsecs': 1,
            'process_index': 0, 'program_name': 'p', 'disabled': False, 'has_stdout': False, 'has_stderr': False}


def event_payload(i, state, expected, t):
    return {'identifier': i, 'name': 'p', 'group': 'g', 'state': state, 'now': int(t), 'now_monotonic': t, 'pid': 1,
            'expected': expected, 'spawnerr': '' if expected else 'bad exit', 'extra_args': '', 'disabled': False}


class St:
    __slots__ = ('p', 'r', 't')


class ProcessSpec(Spec):
    name = 'C11'

    def __init__(self, ids):
        self.ids = list(ids)

    def new(self):
        st = St()
        st.p = ProcessStatus('g', 'p', ProcessRules(_Sv(self.ids)), _Sv(self.ids))
        st.r = ProcessRef()
        st.t = 100.0
        return st

    def ops(self, cfg=None):
        out = []
        # simplest first: snapshots, then events, then losses / removals, then forced states
        for i in self.ids:
            for s in STATES:
                out.append(('add', i, s))
        for i in self.ids:
            for s in STATES:
                if s == EXITED:
                    out.append(('evt', i, s, True))
                    out.append(('evt', i, s, False))
                else:
                    out.append(('evt', i, s, True))
        for i in self.ids:
            out.append(('lose', i))
            out.append(('remove', i))
        for tgt in self.ids + ['']:
            for fs in (FATAL, STOPPED):
                for age in ('older', 'equal', 'newer'):
                    out.append(('force', tgt, fs, age))
        return out

    def enabled(self, st, op):
        k = op[0]
        p = st.p
        if k == 'add':
            return True
        if k == 'remove':
            # removal of an instance listed as running is outside the statement (exercised by C16)
            return op[1] in p.info_map and op[1] not in p.running_identifiers and len(p.info_map) > 1
        if k in ('evt', 'lose'):
            return op[1] in p.info_map
        if k == 'force':
            if not p.info_map:
                return False
            if op[3] == 'older':
                return op[1] in p.info_map
            return True
        return True

    def apply(self, st, op):
        p, r = st.p, st.r
        st.t += 1.0
        t = st.t
        k = op[0]
        if k == 'add':
            p.add_info(op[1], full_info(op[2], t))
            r.snapshot(op[1], op[2], t)
        elif k == 'evt':
            p.update_info(op[1], event_payload(op[1], op[2], op[3], t))
            r.event(op[1], op[2], op[3], t)
        elif k == 'lose':
            p.invalidate_identifier(op[1])
            r.lose(op[1])
        elif k == 'remove':
            before = p.serial()['statecode']
            p.remove_identifier(op[1])
            r.remove(op[1], before)
        elif k == 'force':
            tgt, fs, age = op[1], op[2], op[3]
            if tgt in r.last:
                et = r.last[tgt][3]
                ftime = et - 0.5 if age == 'older' else et if age == 'equal' else et + 0.5
            else:
                ftime = t
            taken_ref = r.force(tgt, fs, ftime)
            taken = p.force_state({'identifier': tgt, 'now_monotonic': ftime, 'state': fs, 'spawnerr': 'why'})
            if bool(taken) != taken_ref:
                return [{'clause': 'forced-state-arbitration', 'signature': f'C11:force-arbitration:{age}',
                         'taken': bool(taken), 'expected': taken_ref}]
        return self.compare(p, r, op)

    @staticmethod
    def compare(p, r, op):
        errs = []
        ser = p.serial()
        if set(ser['identifiers']) != r.listed:
            errs.append({'clause': 'running-identifiers', 'signature': f'C11:identifiers:{op[0]}',
                         'got': sorted(ser['identifiers']), 'want': sorted(r.listed)})
        if bool(p.conflicting()) != r.conflict():
            errs.append({'clause': 'conflict-flag', 'signature': f'C11:conflict:{op[0]}',
                         'got': bool(p.conflicting()), 'want': r.conflict()})
        want, exp = r.acceptable()
        if want is not None:
            if ser['statecode'] not in want:
                errs.append({'clause': 'displayed-state', 'signature': f'C11:state:{op[0]}',
                             'got': ser['statecode'], 'want': sorted(want)})
            if exp is not None and ser['expected_exit'] != exp:
                errs.append({'clause': 'expected-exit', 'signature': f'C11:expected:{op[0]}',
                             'got': ser['expected_exit'], 'want': exp})
        return errs

    def key(self, st):
        p, r = st.p, st.r
        infos = tuple(sorted((i, d['state'], d['expected'], d.get('has_crashed')) for i, d in p.info_map.items()))
        times = sorted({d['local_mtime'] for d in p.info_map.values()} | {d['event_time'] for d in p.info_map.values()})
        rk = tuple(sorted((i, times.index(d['local_mtime']), times.index(d['event_time']))
                          for i, d in p.info_map.items()))
        return (infos, rk, tuple(sorted(p.running_identifiers)), p._state, p.forced_state, p.expected_exit,
                r.forced_maybe, r.stale, r.forced)


def main():
    t = tier()
    out = Outcome('C11', 'exploration')
    if t == 'quick':
        plan = [(['A', 'B'], 5), (['A', 'B', 'C'], 3)]
    else:
        plan = [(['A', 'B'], 8), (['A', 'B', 'C'], 5)]
    specs = [ProcessSpec(ids) for ids, _ in plan]
    depths = {id(s): d for s, (_, d) in zip(specs, plan)}
    results = run_specs(specs, lambda s: depths[id(s)], lambda s: {'max_seconds': 1500 if t == 'thorough' else 150})
    cov = out.coverage
    cov.update({'evaluations': 0, 'distinct_nontrivial': 0, 'states': 0, 'transitions': 0, 'samples': [],
                'configurations': []})
    complete = True
    for (ids, depth), spec, r in zip(plan, specs, results):
        if r.error:
            print('HARNESS ERROR:', r.error)
            return 2
        cov['evaluations'] += r.transitions
        cov['transitions'] += r.transitions
        cov['states'] += r.states
        cov['distinct_nontrivial'] += r.nontrivial
        cov['samples'] += r.samples[:2]
        cov['configurations'].append({'instances': ids, 'depth_bound': depth, 'max_depth_reached': r.max_depth,
                                      'fixpoint_reached': r.fixpoint, 'capped': r.capped, 'states': r.states,
                                      'transitions': r.transitions, 'alphabet': len(spec.ops()),
                                      'wall_s': round(r.wall, 1)})
        complete &= (not r.capped)
        for v, hist in r.violations:
            # confirm twice from scratch
            for _ in range(2):
                st = rebuild(spec, hist[:-1])
                errs = checked_apply(spec, st, hist[-1])
                assert v['signature'] in [e['signature'] for e in errs], 'violation did not reproduce'
            out.report(v, {'driver': 'C11', 'config': {'ids': ids}, 'events': [list(o) for o in hist]})
    cov['rule'] = ('product BFS of the real ProcessStatus and the reference model over every sequence of snapshots '
                   '(8 states), events (9), losses, removals and forced states (targeted / untargeted, older / equal / '
                   'newer than the last report) on 2-3 instances; states merged on (per-instance state, expected, '
                   'reception and event-time ranks, synthesis); a state is non-trivial when its history holds two '
                   'operations on the same instance')
    cov['traces_validated_against_impl'] = cov['states']
    out.assumptions += ['removal of an instance listed as running is outside the statement',
                        'where the statement is silent (snapshot or loss while a forced state is displayed, '
                        're-evaluation after a removal) both readings are accepted']
    return out.finish(exhaustive=complete)


def replay(payload):
    spec = ProcessSpec(payload['config']['ids'])
    hist = [tuple(o) for o in payload['events']]
    st = rebuild(spec, hist[:-1])
    errs = checked_apply(spec, st, hist[-1])
    print('history:', hist)
    print('oracle:', errs)
    if payload.get('signature') in [e['signature'] for e in errs]:
        print(f'VIOLATION property=C11 replay=(reproduced) signature={payload["signature"]}')
        return 1
    print('not reproduced on this tree')
    return 0
