"""C18 - rules and options resolve totally, in-domain, with documented precedence (bounded-exhaustive inputs)."""
import itertools
import math
import os
import sys
import tempfile

from .. import world as _w
from ..refmodels.rules_ref import RulesRef, Undefined, spread_hash, spread_at
from ..report import Outcome, tier

from supvisors.application import ApplicationRules, HomogeneousGroup
from supvisors.options import SupvisorsOptions
from supvisors.process import ProcessRules, ProcessStatus
from supvisors.sparser import Parser

INSTANCES = ['10.0.0.1:25000', '10.0.0.2:25000', '10.0.0.3:25000']


class _Log:
    level = 50

    def __getattr__(self, n):
        if n.startswith('__'):
            raise AttributeError(n)
        return lambda *a, **k: None


class _SD:
    def autorestart(self, ns):
        raise KeyError(ns)

    def update_extra_args(self, *a):
        raise KeyError


class _Mapper:
    def __init__(self, idents, nicks=None):
        self.instances = {i: None for i in idents}
        self.nicks = dict(nicks or {})

    def filter(self, lst):
        out = []
        for x in lst:
            x = self.nicks.get(x, x)
            if x in self.instances and x not in out:
                out.append(x)
        return out


class _Sv:
    def __init__(self, path=None, idents=INSTANCES):
        self.logger = _Log()
        self.options = type('O', (), {'rules_files': [path]})()
        self.supervisor_data = _SD()
        self.mapper = _Mapper(idents)


TMP = tempfile.mkdtemp(prefix='verif-c18-')
import atexit, shutil
atexit.register(shutil.rmtree, TMP, True)
_COUNT = [0]


def parser_for(xml, path_kind):
    """Real Parser on the document; path_kind 'lxml' (XSD validation) or 'et' (lxml import blocked).
    Returns (parser or None when the document is refused, supvisors stub)."""
    _COUNT[0] += 1
    path = os.path.join(TMP, f'r{_COUNT[0]}.xml')
    with open(path, 'w') as f:
        f.write(xml)
    sv = _Sv(path)
    saved = {k: v for k, v in sys.modules.items() if k == 'lxml' or k.startswith('lxml.')}
    try:
        if path_kind == 'et':
            for k in saved:
                sys.modules[k] = None
            sys.modules['lxml'] = None
            sys.modules['lxml.etree'] = None
        devnull = open(os.devnull, 'w')
        old_err = sys.stderr
        sys.stderr = devnull
        import supvisors.sparser as _sp
        _sp.stderr = devnull     # the XSD error log is printed on the stderr object imported by the module
        try:
            return Parser(sv), sv
        except ValueError:
            return None, sv      # XSD validation failed: the document is refused as a whole
        finally:
            sys.stderr = old_err
            _sp.stderr = old_err
            devnull.close()
    finally:
        if path_kind == 'et':
            for k in ('lxml', 'lxml.etree'):
                sys.modules.pop(k, None)
            sys.modules.update(saved)
        os.unlink(path)


APP_DEFAULTS = {'managed': False, 'distribution': 'ALL_INSTANCES', 'identifiers': ['*'], 'at': [], 'hash': [],
                'start_sequence': 0, 'stop_sequence': -1, 'starting_strategy': 'CONFIG',
                'starting_failure_strategy': 'ABORT', 'running_failure_strategy': 'CONTINUE'}
PRG_DEFAULTS = {'identifiers': ['*'], 'at': [], 'hash': [], 'start_sequence': 0, 'stop_sequence': -1, 'required': False,
                'wait_exit': False, 'expected_loading': 0, 'starting_failure_strategy': 'ABORT',
                'running_failure_strategy': 'CONTINUE'}


def real_app(parser, sv, name):
    r = ApplicationRules(sv)
    parser.load_application_rules(name, r)
    ids = r.identifiers
    return {'managed': r.managed, 'distribution': r.distribution.name, 'identifiers': list(ids), 'at': list(r.at_identifiers),
            'hash': list(r.hash_identifiers), 'start_sequence': r.start_sequence, 'stop_sequence': r.stop_sequence,
            'starting_strategy': r.starting_strategy.name, 'starting_failure_strategy': r.starting_failure_strategy.name,
            'running_failure_strategy': r.running_failure_strategy.name}


def real_prg(parser, sv, ns):
    r = ProcessRules(sv)
    parser.load_program_rules(ns, r)
    return {'identifiers': list(r.identifiers), 'at': list(r.at_identifiers), 'hash': list(r.hash_identifiers),
            'start_sequence': r.start_sequence, 'stop_sequence': r.stop_sequence, 'required': r.required,
            'wait_exit': r.wait_exit, 'expected_loading': r.expected_load,
            'starting_failure_strategy': r.starting_failure_strategy.name,
            'running_failure_strategy': r.running_failure_strategy.name}


def doc(body):
    return '<?xml version="1.0" encoding="UTF-8" standalone="no"?>\n<root>\n' + body + '\n</root>'


def esc(s):
    return s.replace('&', '&amp;').replace('<', '&lt;').replace('"', '&quot;')


class Runner:
    def __init__(self, out):
        self.out = out
        self.n = 0
        self.distinct = set()
        self.samples = []
        self.seen = set()
        self.undefined = 0
        self.refused = 0

    def report(self, v, case):
        if v['signature'] in self.seen:
            return
        self.seen.add(v['signature'])
        self.out.report(v, {'driver': 'C18', 'config': {}, 'events': [case]})

    def compare(self, part, xml, names, kinds=('lxml', 'et'), app=True):
        """Look every name up on both parser paths and compare with the reference."""
        for kind in kinds:
            parser, sv = parser_for(xml, kind)
            if parser is None:
                self.refused += 1
                if kind == 'et':
                    self.report({'clause': 'well-formed-document-refused', 'signature': f'C18:{part}:et-refused'},
                                {'part': part, 'xml': xml})
                continue
            ref = RulesRef(xml)
            for name in names:
                self.n += 1
                case = {'part': part, 'path': kind, 'name': name, 'xml': xml}
                is_prg = ':' in name
                try:
                    want = ref.program_rules(name, PRG_DEFAULTS) if is_prg else ref.application_rules(name, APP_DEFAULTS)
                    undefined = False
                except Undefined:
                    want, undefined = None, True
                    self.undefined += 1
                try:
                    got = real_prg(parser, sv, name) if is_prg else real_app(parser, sv, name)
                except Exception as exc:
                    self.report({'clause': 'lookup-raises', 'signature': f'C18:{part}:exception:{type(exc).__name__}',
                                 'exc': repr(exc)[:200], 'undefined_by_doc': undefined}, case)
                    continue
                self.distinct.add((part, kind, str(sorted(got.items()))))
                if undefined:
                    continue
                if got not in want:
                    diff = sorted(k for k in got if all(got[k] != w[k] for w in want))
                    self.report({'clause': 'resolved-rules-differ', 'signature': f'C18:{part}:{"+".join(diff) or "mix"}',
                                 'got': got, 'want': want[:2]}, case)
                elif len(self.samples) < 4 and got != (PRG_DEFAULTS if is_prg else APP_DEFAULTS) and self.n % 37 == 0:
                    self.samples.append({'part': part, 'name': name, 'resolved': got})


def part_app_patterns(R):
    entries = [('name', 'app', 1), ('pattern', 'ap', 2), ('pattern', 'app.*', 3), ('pattern', '.*p$', 4), ('pattern', 'pp', 5)]
    for k in range(0, len(entries) + 1):
        for sub in itertools.combinations(entries, k):
            body = '\n'.join(f'<application {a}="{esc(v)}"><start_sequence>{s}</start_sequence></application>'
                             for a, v, s in sub)
            R.compare('application-lookup', doc(body), ['app', 'apple', 'zapp', 'other', 'ap'])


def part_prg_patterns(R):
    entries = [('name', 'prg', 1), ('pattern', 'prg', 2), ('pattern', r'prg_\d', 3), ('pattern', 'g_1', 4),
               ('pattern', r'prg_\d+', 5)]
    for k in range(0, len(entries) + 1):
        for sub in itertools.combinations(entries, k):
            progs = '\n'.join(f'<program {a}="{esc(v)}"><start_sequence>{s}</start_sequence></program>' for a, v, s in sub)
            body = f'<application name="app"><programs>{progs}</programs></application>'
            R.compare('program-lookup', doc(body), ['app:prg', 'app:prg_1', 'app:prg_12', 'app:zzz', 'other:prg'])
    # program patterns below an application pattern, and the same pattern in two applications
    body = ('<application pattern="ap"><programs><program pattern="prg"><start_sequence>1</start_sequence></program>'
            '</programs></application>'
            '<application name="app"><programs><program pattern="pr"><start_sequence>2</start_sequence></program>'
            '</programs></application>')
    R.compare('program-lookup', doc(body), ['app:prg', 'apx:prg', 'apx:zzz'])


def part_models(R):
    def model(name, ref, seq):
        r = f'<reference>{ref}</reference>' if ref else ''
        s = f'<start_sequence>{seq}</start_sequence>' if seq is not None else ''
        return f'<model name="{name}">{r}{s}<expected_loading>{(seq or 0) * 10 % 100}</expected_loading></model>'
    shapes = {
        'chain1': [('m1', None)], 'chain2': [('m1', 'm2'), ('m2', None)],
        'chain3': [('m1', 'm2'), ('m2', 'm3'), ('m3', None)],
        'chain4': [('m1', 'm2'), ('m2', 'm3'), ('m3', 'm4'), ('m4', None)],
        'self': [('m1', 'm1')], 'mutual': [('m1', 'm2'), ('m2', 'm1')], 'dangling': [('m1', 'nope')],
        'cycle3': [('m1', 'm2'), ('m2', 'm3'), ('m3', 'm1')],
    }
    for sname, ms in shapes.items():
        # which models carry a start_sequence: every subset
        for mask in itertools.product([False, True], repeat=len(ms)):
            for own in (None, 9):
                models = '\n'.join(model(n, r, (k + 1) if m else None) for k, ((n, r), m) in enumerate(zip(ms, mask)))
                own_s = f'<start_sequence>{own}</start_sequence>' if own else ''
                body = (models + f'<application name="app"><programs><program name="prg"><reference>m1</reference>{own_s}'
                        '<required>true</required></program></programs></application>')
                R.compare('model-references', doc(body), ['app:prg'])


def part_scalars(R):
    seqs = ['0', '1', '127', '-1', '128', '300', 'abc', '', '1.5', ' 2 ']
    loads = ['0', '100', '50', '-1', '101', 'abc', '']
    bools = ['true', 'false', '1', '0', 'yes', 'no', 'on', 'off', 'y', 'TRUE', 'maybe', '2', '']
    for v in seqs:
        for tag in ('start_sequence', 'stop_sequence'):
            body = f'<application name="app"><{tag}>{v}</{tag}><programs><program name="prg"><{tag}>{v}</{tag}></program></programs></application>'
            R.compare('scalar-domain', doc(body), ['app', 'app:prg'])
    for v in loads:
        body = f'<application name="app"><programs><program name="prg"><expected_loading>{v}</expected_loading></program></programs></application>'
        R.compare('scalar-domain', doc(body), ['app:prg'])
    for v in bools:
        for tag in ('required', 'wait_exit'):
            body = (f'<application name="app"><programs><program name="prg"><start_sequence>1</start_sequence>'
                    f'<{tag}>{v}</{tag}></program></programs></application>')
            R.compare('scalar-domain', doc(body), ['app:prg'])
    for tag, good in (('distribution', 'SINGLE_NODE'), ('starting_strategy', 'LOCAL'), ('starting_failure_strategy', 'STOP'),
                      ('running_failure_strategy', 'RESTART')):
        for v in (good, good.lower(), 'BOGUS', ''):
            body = f'<application name="app"><{tag}>{v}</{tag}></application>'
            R.compare('scalar-domain', doc(body), ['app'])
    for tag, good in (('starting_failure_strategy', 'CONTINUE'), ('running_failure_strategy', 'STOP_APPLICATION')):
        for v in (good, 'BOGUS'):
            body = f'<application name="app"><programs><program name="prg"><{tag}>{v}</{tag}></program></programs></application>'
            R.compare('scalar-domain', doc(body), ['app:prg'])
    # required without a start_sequence, stop_sequence inherited
    for seq, req, stop in itertools.product(['', '0', '2'], ['true', 'false'], ['', '0', '3']):
        s = f'<start_sequence>{seq}</start_sequence>' if seq else ''
        t = f'<stop_sequence>{stop}</stop_sequence>' if stop else ''
        body = f'<application name="app">{s}{t}<programs><program name="prg">{s}{t}<required>{req}</required></program></programs></application>'
        R.compare('dependencies', doc(body), ['app', 'app:prg'])


def part_identifiers(R):
    alias_tables = ['', '<alias name="front">n1,n2</alias>', '<alias name="a1">a2,n3</alias><alias name="a2">n1</alias>',
                    '<alias name="a2">n1</alias><alias name="a1">a2,n3</alias>', '<alias name="empty"></alias>',
                    '<alias name="loop">loop,n1</alias>']
    id_texts = ['*', 'n1', 'n1,n2', 'n2,n1,n2', 'front', 'a1', 'a1,front', 'n1,*', '#', '#,n1,n2', '@', '@,n2', '#,@,n1',
                '#,*', ' n1 , n2 ', 'empty', 'loop', ',', 'unknown,n1']
    for al in alias_tables:
        for t in id_texts:
            for elt in ('name', 'pattern'):
                body = (al + f'<application name="app"><identifiers>{t}</identifiers><programs><program {elt}="prg">'
                        f'<identifiers>{t}</identifiers></program></programs></application>')
                R.compare('identifiers', doc(body), ['app', 'app:prg'])


def part_signs(R):
    """'#' / '@' spread a homogeneous group of 1-4 processes over 1-3 instances."""
    for n_inst in (1, 2, 3):
        idents = INSTANCES[:n_inst]
        for n_proc in (1, 2, 3, 4):
            for sign in ('#', '@'):
                for lst in (['*'], idents[::-1], idents[:1], ['nope'], ['nope', idents[0]]):
                    R.n += 1
                    sv = _Sv(idents=idents)
                    group = HomogeneousGroup('prg', sv)
                    procs = []
                    for k in range(n_proc):
                        r = ProcessRules(sv)
                        if sign == '#':
                            r.hash_identifiers, r.identifiers = list(lst), []
                        else:
                            r.at_identifiers, r.identifiers = list(lst), []
                        p = ProcessStatus('app', f'prg_{k}', r, sv)
                        p._process_index = k
                        p._program_name = 'prg'
                        procs.append(p)
                    # added in reverse order: the resolution must follow the process index
                    for p in reversed(procs):
                        group.add_process(p)
                    case = {'part': 'sign-resolution', 'sign': sign, 'instances': idents, 'processes': n_proc, 'list': lst}
                    try:
                        group.resolve_rules()
                    except Exception as exc:
                        R.report({'clause': 'sign-resolution-raises', 'signature': f'C18:sign:exception:{type(exc).__name__}',
                                  'exc': repr(exc)[:200]}, case)
                        continue
                    ref_list = idents if lst == ['*'] else [x for x in lst if x in idents]
                    want = spread_hash(n_proc, ref_list) if sign == '#' else spread_at(n_proc, ref_list)
                    got = [list(p.rules.identifiers) for p in procs]
                    R.distinct.add(('sign', sign, n_inst, n_proc, str(got)))
                    if got != want:
                        R.report({'clause': 'sign-spreading', 'signature': f'C18:sign:{sign}', 'got': got, 'want': want}, case)


def part_signs_growing(R):
    """'#' over a group that grows between two resolutions (numprocs increased): the processes already assigned keep their
    instance and the spreading stays equal (the counts per instance never differ by more than one)."""
    for n_inst in (2, 3):
        idents = INSTANCES[:n_inst]
        for first in (1, 2, 3, 4):
            for more in (1, 2, 3):
                for more2 in (0, 1, 2):
                    R.n += 1
                    sv = _Sv(idents=idents)
                    group = HomogeneousGroup('prg', sv)
                    procs = []

                    def grow(n):
                        for _ in range(n):
                            r = ProcessRules(sv)
                            r.hash_identifiers, r.identifiers = ['*'], []
                            p = ProcessStatus('app', f'prg_{len(procs)}', r, sv)
                            p._process_index = len(procs)
                            p._program_name = 'prg'
                            procs.append(p)
                            group.add_process(p)
                    case = {'part': 'sign-resolution-growing', 'instances': idents, 'steps': [first, more, more2]}
                    try:
                        before = []
                        for n in (first, more, more2):
                            grow(n)
                            group.resolve_rules()
                            got = [list(p.rules.identifiers) for p in procs]
                            moved = [k for k, (a_, b_) in enumerate(zip(before, got)) if a_ != b_]
                            counts = {i: sum(1 for g in got if g == [i]) for i in idents}
                            unassigned = [k for k, g in enumerate(got) if len(g) != 1 or g[0] not in idents]
                            if moved or unassigned or max(counts.values()) - min(counts.values()) > 1:
                                R.report({'clause': 'sign-spreading-after-growth', 'signature': 'C18:sign:#:growing',
                                          'got': got, 'moved': moved, 'unassigned': unassigned, 'counts': counts}, case)
                                break
                            before = got
                        R.distinct.add(('sign-growing', n_inst, first, more, more2, str(got)))
                    except Exception as exc:
                        R.report({'clause': 'sign-resolution-raises', 'signature': f'C18:sign:exception:{type(exc).__name__}',
                                  'exc': repr(exc)[:200]}, case)


def part_hostile_names(R):
    """Names Supervisor accepts (anything but ':', '/' and white space) and patterns that are not regular expressions:
    the documentation defines no result, only 'no exception escapes' is required."""
    body = ('<application pattern="*_srv"><start_sequence>1</start_sequence></application>'
            '<application name="app"><programs><program pattern="(prg"><start_sequence>2</start_sequence></program>'
            '<program name="ok"><start_sequence>3</start_sequence></program></programs></application>')
    R.compare('hostile-names', doc(body), ['app', 'x_srv', 'zzz', 'app:ok', 'app:prg', 'a"b', "a'b", 'app:p"q', 'a]b', 'a[b',
                                             'app:p]q', 'a&b'])


# ---------------------------------------------------------------------------------------------
# options
# ---------------------------------------------------------------------------------------------
def options_part(R):
    sd = type('S', (), {})()
    sd.options = type('O', (), {'here': '.', 'environ_expansions': {}})()
    E = lambda x: x

    def get(opts):
        o = SupvisorsOptions(sd, _Log(), **opts)
        return o

    def norm(v):
        if hasattr(v, 'name'):
            return v.name
        if isinstance(v, (list, tuple)):
            return [norm(x) for x in v]
        if isinstance(v, set):
            return sorted(norm(x) for x in v)
        if isinstance(v, float) and math.isnan(v):
            return 'nan'
        return v
    table = [
        # (option, attribute, default, [(text, expected)])
        ('synchro_timeout', 'synchro_timeout', 15, [('15', 15), ('1200', 1200), ('20', 20), ('14', 15), ('1201', 15),
                                                    ('abc', 15), ('', 15), ('-20', 15), ('20.5', 15)]),
        ('inactivity_ticks', 'inactivity_ticks', 2, [('2', 2), ('720', 720), ('3', 3), ('1', 2), ('721', 2), ('abc', 2),
                                                     ('', 2), ('0', 2)]),
        ('stats_collecting_period', 'collecting_period', 5, [('1', 1.0), ('3600', 3600.0), ('7.5', 7.5), ('0.9', 5),
                                                             ('3600.1', 5), ('abc', 5), ('', 5), ('nan', 5), ('inf', 5),
                                                             ('-inf', 5)]),
        ('stats_periods', 'stats_periods', [10], [('5', [5.0]), ('5,60,600', [5.0, 60.0, 600.0]), ('60,5', [5.0, 60.0]),
                                                  ('1,2,3,4', [10]), ('', [10]), ('0.5', [10]), ('3601', [10]),
                                                  ('abc', [10]), ('nan', [10]), ('5,nan', [10]), ('inf', [10])]),
        ('stats_histo', 'stats_histo', 200, [('10', 10), ('1500', 1500), ('100', 100), ('9', 200), ('1501', 200),
                                             ('abc', 200), ('', 200)]),
        ('auto_fence', 'auto_fence', False, [('true', True), ('false', False), ('1', True), ('maybe', False), ('', False)]),
        ('stats_irix_mode', 'stats_irix_mode', False, [('true', True), ('garbage', False)]),
        ('event_port', 'event_port', 0, [('1', 1), ('65535', 65535), ('0', 0), ('65536', 0), ('abc', 0)]),
        ('multicast_ttl', 'multicast_ttl', 1, [('0', 0), ('255', 255), ('256', 1), ('-1', 1), ('x', 1)]),
        ('conciliation_strategy', 'conciliation_strategy', 'USER', [('STOP', 'STOP'), ('senicide', 'SENICIDE'),
                                                                    ('BOGUS', 'USER'), ('', 'USER')]),
        ('starting_strategy', 'starting_strategy', 'CONFIG', [('LOCAL', 'LOCAL'), ('less_loaded', 'LESS_LOADED'),
                                                              ('BOGUS', 'CONFIG'), ('', 'CONFIG')]),
        ('event_link', 'event_link', 'NONE', [('ZMQ', 'ZMQ'), ('ws', 'WS'), ('BOGUS', 'NONE')]),
        ('tail_limit', 'tail_limit', 1024, [('2048', 2048), ('1KB', 1024), ('abc', 1024)]),
    ]
    for opt, attr, default, cases in table:
        for text, want in [(None, default)] + cases:
            R.n += 1
            cfg = {} if text is None else {opt: text}
            case = {'part': 'options', 'option': opt, 'value': text}
            try:
                o = get(cfg)
                got = norm(getattr(o, attr))
            except Exception as exc:
                R.report({'clause': 'option-conversion-raises', 'signature': f'C18:option:{opt}:exception:{type(exc).__name__}',
                          'exc': repr(exc)[:200]}, case)
                continue
            R.distinct.add(('opt', opt, str(got)))
            if got != norm(want):
                R.report({'clause': 'option-out-of-range-not-defaulted' if want == default else 'option-value',
                          'signature': f'C18:option:{opt}:{text}', 'got': got, 'want': norm(want)}, case)
    # interacting options: complete product, each dictionary also evaluated after the others (class-level defaults
    # must not leak from one SupvisorsOptions to the next)
    so_vals = [None, 'LIST', 'STRICT', 'CORE', 'TIMEOUT', 'USER', 'STRICT,CORE', 'CORE,TIMEOUT', 'LIST,USER', 'BOGUS', '',
               'strict,list']
    core_vals = [None, 'a']
    list_vals = [None, 'a,b']
    strat_vals = [None, 'RESYNC', 'SHUTDOWN', 'BOGUS']
    DEFAULT_SO = ['STRICT', 'TIMEOUT', 'CORE']

    def reference(so, core, lst, strat):
        if so is None or so == 'BOGUS':
            sel = list(DEFAULT_SO)
        else:
            sel = []
            for x in so.split(','):
                x = x.strip().upper()
                if x and x not in sel:
                    sel.append(x)
        if not core and 'CORE' in sel:
            sel.remove('CORE')
        if not lst and 'STRICT' in sel:
            sel.remove('STRICT')
        if not sel:
            return 'refused', None
        fs = strat if strat in ('RESYNC', 'SHUTDOWN') else 'CONTINUE'
        if 'TIMEOUT' in sel:
            fs = 'CONTINUE'
        return sel, fs
    combos = list(itertools.product(so_vals, core_vals, list_vals, strat_vals))
    for order in (combos, combos[::-1]):
        for so, core, lst, strat in order:
            R.n += 1
            cfg = {}
            if so is not None:
                cfg['synchro_options'] = so
            if core is not None:
                cfg['core_identifiers'] = core
            if lst is not None:
                cfg['supvisors_list'] = lst
            if strat is not None:
                cfg['supvisors_failure_strategy'] = strat
            want_so, want_fs = reference(so, core, lst, strat)
            case = {'part': 'options-interaction', 'options': cfg, 'evaluated_after_others': order is not combos}
            try:
                o = get(cfg)
                got_so, got_fs = [x.name for x in o.synchro_options], o.supvisors_failure_strategy.name
            except ValueError as exc:
                got_so, got_fs = 'refused', None
            except Exception as exc:
                R.report({'clause': 'option-conversion-raises', 'signature': f'C18:options:exception:{type(exc).__name__}',
                          'exc': repr(exc)[:200]}, case)
                continue
            R.distinct.add(('optx', str(got_so), got_fs))
            if (got_so, got_fs) != (want_so, want_fs):
                R.report({'clause': 'interacting-options',
                          'signature': 'C18:options:synchro' + (':after-another-instance' if order is not combos else ''),
                          'got': [got_so, got_fs], 'want': [want_so, want_fs]}, case)


def main():
    out = Outcome('C18', 'exploration')
    R = Runner(out)
    part_app_patterns(R)
    part_prg_patterns(R)
    part_models(R)
    part_scalars(R)
    part_identifiers(R)
    part_signs(R)
    part_signs_growing(R)
    part_hostile_names(R)
    options_part(R)
    cov = out.coverage
    cov['evaluations'] = R.n
    cov['distinct_nontrivial'] = len(R.distinct)
    cov['documents_refused_by_xsd'] = R.refused
    cov['lookups_undefined_by_documentation'] = R.undefined
    cov['samples'] = R.samples
    cov['rule'] = ('rules documents generated from a bounded grammar and looked up on both parser paths (lxml + XSD, '
                   'ElementTree with the lxml import blocked): every subset of 5 application entries (exact / overlapping '
                   'patterns) x 5 names, every subset of 5 program entries x 5 namespecs, model chains of length 1-4 incl. self, '
                   'mutual, 3-cycles and dangling references with every subset of levels carrying the value, every scalar from '
                   'its domain alphabet, dependencies, 6 alias tables x 19 identifiers texts, # / @ over 1-4 processes x 1-3 '
                   'instances, hostile names and non-regex patterns; options: per-option alphabet (boundaries, just outside, '
                   'garbage, empty, nan / inf) and the complete product of the interacting options evaluated in both orders in '
                   'one process. distinct = distinct resolved results per part')
    out.assumptions += ['patterns that are not regular expressions: only "no exception escapes" is required',
                        'ties between patterns with equally long matches: every such pattern is acceptable']
    return out.finish(exhaustive=True)


def replay(payload):
    print(payload['events'][0])
    return 0
