"""C16 - no event sequence makes an instance fail internally."""
import os

from ..drivers.cluster import Cluster
from ..report import tier
from .e1 import run_e1, replay_e1
from .membership import cfg, kwargs_of

DRIVER = Cluster('C16', ['C16'])
RQ = ['restart', 'shutdown']


def configs(t):
    q = [
        cfg(2, 4, 2, cost=3),
        cfg(2, 5, 2, F=1, faults=['crash'], warm=5, cost=5),
        cfg(2, 5, 1, F=1, faults=['crash', 'restart'], warm=5, cost=6),
        cfg(2, 5, 1, F=1, faults=['crash', 'restart'], warm=5, fence=True, cost=6),
        cfg(2, 4, 1, F=1, faults=['isolate'], warm=5, cost=9),
        cfg(2, 4, 1, F=1, faults=['isolate'], warm=5, fence=True, cost=7),
        cfg(2, 5, 1, F=1, faults=['stall'], warm=5, cost=5),
        cfg(3, 4, 0, F=1, faults=['crash'], warm=6, cost=6),
        cfg(3, 2, 1, F=1, faults=['crash'], warm=6, crashable=[2], cost=8),
        cfg(2, 3, 1, requests=RQ, F=1, faults=['crash'], warm=5, cost=5),
        cfg(3, 2, 0, requests=RQ, F=1, faults=['crash'], warm=6, crashable=[2], cost=6),
        cfg(2, 4, 1, so='USER', requests=['end_sync'], cost=6),
        cfg(2, 5, 1, rules=True, F=1, faults=['crash'], cost=6),
        cfg(2, 3, 1, rules=True, requests=RQ, warm=5, cost=4),
        cfg(3, 3, 0, F=1, faults=['crash'], so='STRICT', strategy='RESYNC', warm=6, cost=4),
        cfg(3, 3, 0, F=1, faults=['crash'], so='STRICT', strategy='SHUTDOWN', warm=6, cost=4),
        cfg(3, 4, 0, late=[2], warm=6, cost=4),
        # a late joiner is held CHECKED while the distribution lasts (slow start) and is lost in that state
        cfg(3, 5, 0, late=[2], rules=True, slow_start=True, F=1, faults=['crash'], crashable=[2], warm=4, cost=7),
        # slow exchanges: late reply of a handshake, TICK on the wire (with and without fencing)
        cfg(2, 5, 0, faults=['hang', 'lag'], fence=True, late=[1], warm=6, cost=9),
        cfg(2, 4, 0, faults=['hang', 'lag'], late=[1], warm=6, cost=6),
    ]
    if t == 'quick':
        return q
    th = []
    for c in q:
        c2 = dict(c)
        c2['D'] = min(2, c['D'] + 1)
        c2['T'] = c['T'] + 1
        if c['n'] == 2 and c['F']:
            c2['F'] = 2
        c2['name'] = c['name'] + '-deep'
        c2['cost'] = c['cost'] * 10
        th.append(c2)
    return q + th


# ---------------------------------------------------------------------------------------------
# the same monitor over the job explorations (requests never acknowledged, targets lost, slow stops)
# ---------------------------------------------------------------------------------------------
from .c10 import TermJobs, configs as c10_configs
from ..monitors import internal_errors


class JobErrors(TermJobs):
    """C10's worlds (start / stop jobs with processes that never answer, back off, instances lost) judged for
    internal errors, along the exploration and along the worst-case closure (nothing answers any more)."""
    name = 'joberrors'

    def closure_check(self, w, cfg):
        w.round_robin(self.bound(cfg))
        obs = w.drain_observations()
        w.violations = []
        return internal_errors(obs) or None


JDRIVER = JobErrors('C16', ['C16'])


def job_configs(t):
    out = []
    for c in c10_configs('quick'):
        out.append(dict(c, name='jobs-' + c['name']))
    if t == 'thorough':
        out += [dict(c, name='jobs-' + c['name']) for c in c10_configs('thorough', deep_for_c16=True)
                if c['name'].endswith('-deep')]
    return out


def main():
    t = tier()
    cfgs = configs(t)
    cap = int(os.environ.get('VERIF_CAP_S', '0')) or (None if t == 'quick' else 2400)
    jcfgs = job_configs(t)
    for c in cfgs + jcfgs:
        c['max_seconds'] = cap
    out, complete = run_e1(
        'C16', [(DRIVER, cfgs, kwargs_of('none')),
                (JDRIVER, jcfgs, lambda c: {'deviations': c['D'], 'closure': 'all', 'max_seconds': c.get('max_seconds')})],
        rule='every E1 membership exploration (ticks, deliveries, crashes, restarts, isolations, stalls, restart / '
             'shutdown / end_sync requests, automatic start of an application) with the internal-error monitor: no CRIT '
             'log record carrying a traceback, no exception other than RPCError leaving an XML-RPC method, no exception '
             'escaping a proxy thread, no un-marshallable XML-RPC result; the same monitor over the job explorations of C10 '
             '(requests never acknowledged, repeated BACKOFF, stuck stops, targets lost) and their worst-case closures',
        assumptions=['critical log records without a traceback (e.g. OffState after 15 s) are not internal errors'])
    # part 2: hostile product (reachable instance states x next events, RPC matrix, heterogeneous configurations)
    from . import c16b
    counts, viols = c16b.run_all(int(os.environ.get('VERIF_WORKERS', '16')))
    seen = set()
    for v, case in viols:
        if v['signature'] in seen:
            continue
        seen.add(v['signature'])
        out.report(v, {'driver': 'C16-hostile', 'config': {}, 'events': [case]})
    out.coverage['hostile_product'] = counts
    out.coverage['rule'] += (' | hostile product: every state of scripted real histories (cold start, process start, crash, '
                             'detection, restart; auto_fence off / on) x forged publications / notifications from each peer and '
                             'Supervisor-side events (processes / groups added, removed, disabled, unknown processes) followed by '
                             'a local tick that must still be processed and published; every XML-RPC of the C17 matrix plus '
                             'hostile parameters in every Supvisors state; SINGLE_NODE / SINGLE_INSTANCE starts with instances '
                             'of one node knowing different programs')
    return out.finish(exhaustive=complete)


def replay(payload):
    if payload.get('driver') == 'C16-hostile':
        print(payload['events'])
        return 0
    return replay_e1(payload, {'cluster': DRIVER, 'joberrors': JDRIVER})
