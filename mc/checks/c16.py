"""C16 - no event sequence makes an instance fail internally."""
import os

from ..drivers.cluster import Cluster
from ..report import tier
from .e1 import run_e1, replay_e1
from .membership import cfg, kwargs_of

DRIVER = Cluster('C16', ['C16'])
RQ = ['restart', 'shutdown']


def configs(t):
    q = [
        cfg(2, 4, 2, cost=3),
        cfg(2, 5, 2, F=1, faults=['crash'], warm=5, cost=5),
        cfg(2, 5, 1, F=1, faults=['crash', 'restart'], warm=5, cost=6),
        cfg(2, 5, 1, F=1, faults=['crash', 'restart'], warm=5, fence=True, cost=6),
        cfg(2, 5, 1, F=1, faults=['isolate'], warm=5, cost=5),
        cfg(2, 5, 1, F=1, faults=['isolate'], warm=5, fence=True, cost=5),
        cfg(2, 5, 1, F=1, faults=['stall'], warm=5, cost=5),
        cfg(3, 4, 0, F=1, faults=['crash'], warm=6, cost=6),
        cfg(3, 2, 1, F=1, faults=['crash'], warm=6, crashable=[2], cost=8),
        cfg(2, 3, 1, requests=RQ, F=1, faults=['crash'], warm=5, cost=5),
        cfg(3, 2, 0, requests=RQ, F=1, faults=['crash'], warm=6, cost=6),
        cfg(2, 4, 1, so='USER', requests=['end_sync'], cost=6),
        cfg(2, 5, 1, rules=True, F=1, faults=['crash'], cost=6),
        cfg(2, 3, 1, rules=True, requests=RQ, warm=5, cost=4),
        cfg(3, 3, 0, F=1, faults=['crash'], so='STRICT', strategy='RESYNC', warm=6, cost=4),
        cfg(3, 3, 0, F=1, faults=['crash'], so='STRICT', strategy='SHUTDOWN', warm=6, cost=4),
        cfg(3, 4, 0, late=[2], warm=6, cost=4),
    ]
    if t == 'quick':
        return q
    th = []
    for c in q:
        c2 = dict(c)
        c2['D'] = min(2, c['D'] + 1)
        c2['T'] = c['T'] + 1
        if c['n'] == 2 and c['F']:
            c2['F'] = 2
        c2['name'] = c['name'] + '-deep'
        c2['cost'] = c['cost'] * 10
        th.append(c2)
    return q + th


def main():
    t = tier()
    cfgs = configs(t)
    cap = int(os.environ.get('VERIF_CAP_S', '0')) or (None if t == 'quick' else 2400)
    for c in cfgs:
        c['max_seconds'] = cap
    out, complete = run_e1(
        'C16', [(DRIVER, cfgs, kwargs_of('none'))],
        rule='every E1 membership exploration (ticks, deliveries, crashes, restarts, isolations, stalls, restart / '
             'shutdown / end_sync requests, automatic start of an application) with the internal-error monitor: no CRIT '
             'log record carrying a traceback, no exception other than RPCError leaving an XML-RPC method, no exception '
             'escaping a proxy thread, no un-marshallable XML-RPC result',
        assumptions=['critical log records without a traceback (e.g. OffState after 15 s) are not internal errors'])
    return out.finish(exhaustive=complete)


def replay(payload):
    return replay_e1(payload, {'cluster': DRIVER})
