"""C13 - isolation is permanent, reciprocal and airtight."""
import itertools
import json
import multiprocessing
import os

from .. import world as W
from ..hostile import messages
from ..monitors import observable, instance_states, internal_errors
from ..report import Outcome, tier
from ..rulesgen import rules_xml, groups_of
from ..world import World, make_scenario

from ..drivers.cluster import Cluster as _Cluster
E1_DRIVER = _Cluster('C13', ['C13'])

RULES = [{'name': 'A', 'start_sequence': 0, 'programs': [{'name': 'a', 'start_sequence': 1, 'expected_loading': 10}]}]


def run(w):
    for e in w.proc_events(('run', 'stopped')):
        w.apply(e)


def base_world(config_of=None, n=3, so='LIST,TIMEOUT'):
    sc = make_scenario(n, config={'synchro_options': so, 'auto_fence': 'true'}, rules=rules_xml(RULES),
                       groups=groups_of(RULES), nicks=['n1', 'n2', 'n3'][:n], config_of=config_of)
    w = World(sc)
    w.start_all()
    return w


def scenarios():
    """{name: (blob, receiver, peer, expected peer state seen by the receiver)}"""
    out = {}
    # (a) auto_fence + silence in a working state: instance 2 runs A:a, crashes, is isolated by 0 and 1
    w = base_world()
    w.round_robin(7)
    w.apply(('ustart', 2, 'A:a'))
    w.drain()
    w.apply(('proc', 2, 'A:a', 'run'))
    w.round_robin(1)
    running_blob = W.snapshot(w)
    w.apply(('crash', 2))
    w.round_robin(5)
    assert instance_states(w.sups[0])[w.idents[2]] == 'ISOLATED', instance_states(w.sups[0])
    out['fenced-after-silence'] = (W.snapshot(w), 0, 2, 'ISOLATED')
    # (b) the isolated instance restarts: it is told NOT_AUTHORIZED and isolates the others in return
    w.apply(('restart', 2))
    w.round_robin(6)
    out['restarted-isolated-peer'] = (W.snapshot(w), 0, 2, 'ISOLATED')
    # reciprocity: a TICK of instance 0 that was in flight reaches the restarted instance, which then handshakes
    # with 0 and is told that 0 has isolated it
    tick = {'when': 1700000100, 'when_monotonic': w.clock_t, 'sequence_counter': w.sups[0].listener.counter}
    from supvisors.ttypes import SUPVISORS_PUBLICATION
    w.apply(('inject', 2, SUPVISORS_PUBLICATION, [[w.idents[0], 'n1', ['10.0.0.1', 25000]], [0, tick]]))
    w.drain()
    out['reciprocal'] = (W.snapshot(w), 2, 0, 'ISOLATED')
    # (c) each strategy option differing: INCONSISTENT -> isolated instead of admitted
    for opt, val in (('auto_fence', 'false'), ('starting_strategy', 'LESS_LOADED'), ('conciliation_strategy', 'STOP'),
                     ('supvisors_failure_strategy', 'RESYNC')):
        # (TIMEOUT would force supvisors_failure_strategy back to CONTINUE on both sides)
        w = base_world(config_of={1: {opt: val}}, n=2, so='LIST')
        w.round_robin(6)
        out[f'mismatch-{opt}'] = (W.snapshot(w), 0, 1, 'ISOLATED')
    # not-yet-admitted peers: STOPPED (never seen), CHECKING (handshake in progress), FAILED (just lost)
    w = W.restore(running_blob)
    w.apply(('crash', 2))
    for _ in range(3):
        for i in (0, 1):
            w.apply(('tick', i))
            w.drain()
            if instance_states(w.sups[0])[w.idents[2]] == 'FAILED':
                break
        if instance_states(w.sups[0])[w.idents[2]] == 'FAILED':
            break
    w = base_world()
    w.sups[2].alive = False
    w.round_robin(6)
    out['peer-STOPPED'] = (W.snapshot(w), 0, 2, 'STOPPED')
    w = base_world(n=2)
    # CHECKING: tick of 1 delivered to 0 (handshake request queued, not executed)
    w.apply(('tick', 0))
    w.drain()
    w.apply(('tick', 1))
    for _ in range(20):
        ks = w.deliverable()
        if not ks:
            break
        w.apply(('deliver',) + ks[0])
        if instance_states(w.sups[0])[w.idents[1]] == 'CHECKING':
            break
    if instance_states(w.sups[0])[w.idents[1]] == 'CHECKING':
        out['peer-CHECKING'] = (W.snapshot(w), 0, 1, 'CHECKING')
    W.activate(None)
    return out


def status_part(snapshot_json, parts=('processes', 'applications', 'conflicts', 'inner')):
    d = json.loads(snapshot_json)
    return {k: d[k] for k in parts if k in d}


def job(arg):
    name, blob, receiver, peer, expect, depth, origin_kinds = arg
    w0 = W.restore(blob)
    msgs = messages(w0, receiver, peer, origin_kinds=origin_kinds)
    viols = []
    n = 0
    outcomes = set()
    for seq in itertools.product(range(len(msgs)), repeat=depth):
        w = W.restore(blob)
        r = w.sups[receiver]
        w.drain_observations()
        before = observable(r)
        state_before = instance_states(r)[w.idents[peer]]
        for k in seq:
            label, etype, message = msgs[k]
            w.apply(('inject', receiver, etype, message))
        obs = w.drain_observations()
        n += 1
        after = observable(r)
        state_after = instance_states(r)[w.idents[peer]]
        labels = [msgs[k][0] for k in seq]
        outcomes.add((state_before, state_after, after == before))
        case = {'scenario': name, 'messages': labels}
        if state_before == 'ISOLATED':
            if after != before:
                jb, ja = json.loads(before), json.loads(after)
                diff = sorted(k for k in jb if jb[k] != ja[k])
                viols.append(({'clause': 'message-from-isolated-peer-changes-status',
                               'signature': f'C13:interference:{labels[-1].rsplit(":", 1)[0].split(":fresh")[0].split(":stale")[0].split(":checking")[0]}:{"+".join(diff)}',
                               'changed': diff}, case))
            sent = [t for t in obs['transport'] if t['dst'] == peer] + [e for e in obs['emitted'] if e['dst'] == peer]
            queued = [k for k, q in w.channels.items() if k == (receiver, peer) and q]
            if sent or queued:
                viols.append(({'clause': 'traffic-towards-isolated-peer', 'signature': 'C13:traffic-to-isolated',
                               'sent': str(sent[:1])[:200]}, case))
        elif state_before in ('STOPPED', 'CHECKING', 'FAILED'):
            # not admitted (STOPPED / CHECKING / FAILED): process, removal and disability events are ignored
            # (PROCESS_ADDED is not in the statement's list - state, removal, disability - and is not judged)
            if status_part(after) != status_part(before) and all(l.startswith(('pub:PROCESS', 'pub:GROUP_REMOVED'))
                                                                 and not l.startswith('pub:PROCESS_ADDED')
                                                                 for l in labels):
                viols.append(({'clause': 'process-event-from-unadmitted-peer-taken',
                               'signature': f'C13:unadmitted:{state_before}:{labels[-1].split(":")[1]}'}, case))
        if state_before == 'ISOLATED' and state_after != 'ISOLATED':
            viols.append(({'clause': 'isolation-not-permanent', 'signature': f'C13:left-ISOLATED:{state_after}'}, case))
    return name, n, viols[:20], sorted(map(str, outcomes)), len(msgs)


# ---------------------------------------------------------------------------------------------
# E1: histories leading to isolation, explored end to end (slow handshakes, requests on the wire, partitions)
# ---------------------------------------------------------------------------------------------
def e1_configs(t):
    from .membership import cfg as mcfg
    out = []
    # a late joiner whose handshake with the Master is slow (reply of its last XML-RPC late) while a TICK of the
    # Master is on the wire: the Master fences the silent joiner meanwhile
    c = mcfg(2, 5, 0, faults=['hang', 'lag'], fence=True, late=[1], warm=6, name='slow-handshake-late-joiner', cost=8)
    c['hangable'], c['laggable'] = [[1, 0]], [[0, 1]]
    out.append(c)
    c = mcfg(2, 5, 0, faults=['hang', 'lag'], fence=True, late=[1], warm=6, name='slow-handshake-of-the-master', cost=8)
    c['hangable'], c['laggable'] = [[0, 1]], [[1, 0]]
    out.append(c)
    # partition and healing, crash and restart, with fencing: both sides isolate each other for good
    out.append(mcfg(2, 5, 0, F=1, faults=['isolate'], fence=True, warm=6, name='partition-heals-fenced', cost=5))
    out.append(mcfg(2, 5, 0, F=1, faults=['crash', 'restart'], fence=True, warm=6, name='crash-restart-fenced', cost=5))
    out.append(mcfg(3, 3, 0, F=1, faults=['isolate'], fence=True, warm=6, crashable=[2], name='n3-partition-heals-fenced',
                    cost=8))
    # differing strategies: never admitted, whatever the order of the handshakes (cold start)
    c = mcfg(2, 4, 0, so='LIST', name='cold-start-mismatch-conciliation', cost=3)
    c['config_of'], c['mismatch'] = {1: {'conciliation_strategy': 'STOP'}}, [[0, 1]]
    out.append(c)
    c = mcfg(2, 4, 1, so='LIST', name='cold-start-mismatch-starting-D1', cost=6)
    c['config_of'], c['mismatch'] = {1: {'starting_strategy': 'LESS_LOADED'}}, [[0, 1]]
    out.append(c)
    if t == 'thorough':
        deep = []
        for c in out:
            c2 = dict(c)
            c2['D'] = c['D'] + 1
            c2['T'] = c['T'] + 1
            c2['name'] = c['name'] + '-deep'
            c2['cost'] = c['cost'] * 10
            deep.append(c2)
        out += deep
    return out


def main():
    t = tier()
    out = Outcome('C13', 'model_checking')
    scs = scenarios()
    # handshake outcomes
    for name, (blob, receiver, peer, expect) in scs.items():
        w = W.restore(blob)
        got = instance_states(w.sups[receiver])[w.idents[peer]]
        if expect and got != expect:
            out.report({'clause': 'handshake-outcome', 'signature': f'C13:handshake:{name}:{got}', 'expected': expect},
                       {'driver': 'C13', 'config': {}, 'events': [name]})

        # ISOLATED persists through a fair closure and nothing is sent to the isolated peer
        if expect == 'ISOLATED':
            w.drain_observations()
            w.round_robin(6)
            obs = w.drain_observations()
            if instance_states(w.sups[receiver])[w.idents[peer]] != 'ISOLATED':
                out.report({'clause': 'isolation-not-permanent', 'signature': 'C13:left-ISOLATED:closure'},
                           {'driver': 'C13', 'config': {}, 'events': [name]})
            sent = [x for x in obs['transport'] if x['src'] == receiver and x['dst'] == peer]
            if sent:
                out.report({'clause': 'traffic-towards-isolated-peer', 'signature': 'C13:traffic-to-isolated:closure',
                            'first': str(sent[0])[:200]}, {'driver': 'C13', 'config': {}, 'events': [name]})
    W.activate(None)
    jobs = []
    for name, (blob, receiver, peer, expect) in scs.items():
        jobs.append((name, blob, receiver, peer, expect, 1, ('correct', 'wrong-port', 'wrong-address', 'nick-only')))
        if True:
            jobs.append((name, blob, receiver, peer, expect, 2, ('correct',)))
        if t == 'thorough' and os.environ.get('VERIF_DEEP') and name in ('fenced-after-silence', 'restarted-isolated-peer'):
            jobs.append((name, blob, receiver, peer, expect, 3, ('correct',)))
    workers = int(os.environ.get('VERIF_WORKERS', '16'))
    ctx = multiprocessing.get_context('fork')
    with ctx.Pool(min(workers, len(jobs))) as pool:
        results = pool.map(job, jobs, chunksize=1)
    total = 0
    distinct = set()
    for name, n, viols, outcomes, nmsgs in results:
        total += n
        distinct |= {(name, o) for o in outcomes}
        for v, case in viols:
            out.report(v, {'driver': 'C13', 'config': {}, 'events': [case]})
    # E1
    from ..drivers.cluster import Cluster
    from ..explorer import run_batches, aggregate
    from ..report import seed
    global E1_DRIVER
    from ..explorer import filter_deep
    cfgs = filter_deep('C13', e1_configs(t))
    cap = int(os.environ.get('VERIF_CAP_S', '0')) or (None if t == 'quick' else 2400)
    known = set(out.findings)

    def kw(c):
        return {'deviations': c['D'], 'closure': 'none', 'max_seconds': cap, 'seed': seed(), 'known': known}
    res_e1 = run_batches([(E1_DRIVER, cfgs, kw)])[0]
    complete = aggregate(out, E1_DRIVER, cfgs, res_e1, '', [])
    cov = out.coverage
    cov['evaluations'] = total
    cov['distinct_nontrivial'] = len(distinct)
    cov['scenarios'] = sorted(scs)
    cov['samples'] = [{'scenario': r[0], 'sequences': r[1], 'alphabet': r[4], 'outcomes': r[3][:4]} for r in results[:4]]
    cov['rule'] = ('E1 (explicit-state, real cores): late joiner / Master whose handshake is slow (the reply of its last '
                   'XML-RPC is late) while a TICK is on the wire, partition + healing and crash + restart under auto_fence '
                   '(2-3 instances), cold starts with differing strategies (all handshake orders, D<=1); monitors: once ISOLATED a '
                   'status never changes, no XML-RPC towards an isolated peer (a request already on the wire excepted), a peer that has held us '
                   'ISOLATED since before the current CHECKING period is never admitted, a peer with different strategies is '
                   'never admitted.  Hostile part: isolation reached by silence under auto_fence, by the NOT_AUTHORIZED answer of the peer (reciprocity) and by '
                   'each of the four strategy options differing; then every sequence of forged messages of length <= 2 (3 in the '
                   'thorough tier) from the isolated peer (TICK, PROCESS, forced PROCESS, PROCESS_ADDED / REMOVED / DISABILITY, '
                   'STATE publications; IDENTIFICATION, AUTHORIZATION with every code, STATE, ALL_INFO, INSTANCE_FAILURE '
                   'notifications; fresh / stale / equal-to-CHECKING timestamps; origin correct / wrong port / wrong address / '
                   'nick only) is injected: the observable snapshot of the receiver must not change and nothing may be sent to '
                   'the isolated peer; the same alphabet against a STOPPED and a CHECKING peer: process events must be ignored. '
                   'distinct = distinct (scenario, peer state before, after, snapshot unchanged)')
    return out.finish(exhaustive=complete)


def replay(payload):
    if payload.get('driver') == 'cluster':
        from .e1 import replay_e1
        return replay_e1(payload, {'cluster': E1_DRIVER})
    print(payload['events'])
    return 0
