"""C08 - after disturbances the cluster returns to OPERATION; nobody stays parked."""
import os

from ..drivers.cluster import Cluster
from ..report import tier
from .e1 import run_e1, replay_e1
from .membership import cfg, kwargs_of

DRIVER = Cluster('C08', ['C08'])


def configs(t):
    q = [
        cfg(2, 4, 1, cost=4),
        cfg(2, 4, 2, cost=8),
        cfg(3, 3, 0, cost=5),
        cfg(2, 4, 1, F=1, faults=['crash'], warm=5, cost=4),
        cfg(2, 4, 1, F=1, faults=['crash', 'restart'], warm=5, cost=8),
        cfg(2, 3, 1, F=1, faults=['isolate'], warm=5, cost=9),
        cfg(2, 4, 1, F=1, faults=['stall'], warm=5, cost=8),
        cfg(2, 5, 0, F=1, faults=['stall'], warm=5, inact=3, cost=4),
        cfg(3, 3, 0, F=1, faults=['crash'], warm=6, cost=8),
        cfg(3, 2, 0, F=1, faults=['crash', 'restart'], warm=6, crashable=[0, 2], cost=8),
        cfg(3, 2, 0, F=1, faults=['isolate'], warm=6, crashable=[0, 2], cost=8),
        cfg(3, 3, 0, F=1, faults=['crash'], so='STRICT', strategy='RESYNC', warm=6, cost=6),
        cfg(3, 3, 0, F=1, faults=['crash', 'restart'], so='LIST', strategy='RESYNC', warm=6, crashable=[2], cost=8),
        cfg(3, 3, 0, so='CORE', core=['mm'], cost=5),
        cfg(2, 4, 1, rules=True, F=1, faults=['crash'], cost=6),
        cfg(3, 3, 0, late=[2], warm=6, cost=5),
        # the Master is lost during a DISTRIBUTION that lasts (slow start) and that a newcomer has joined (CHECKED)
        cfg(3, 3, 0, late=[2], rules=True, slow_start=True, F=1, faults=['crash'], crashable=[1], warm=4, prejoin=2, cost=9),
        # STRICT + RESYNC: a slave is lost (and comes back) during a DISTRIBUTION that lasts
        cfg(3, 3, 0, so='STRICT', strategy='RESYNC', rules=True, slow_start=True, F=1, faults=['crash', 'restart'],
            crashable=[0], warm=4, cost=9),
        # slow exchanges: whatever is late eventually completes, then everybody is back in OPERATION
        cfg(2, 4, 0, faults=['hang', 'lag'], late=[1], warm=6, cost=6),
    ]
    if t == 'quick':
        return q
    th = []
    for c in q:
        c2 = dict(c)
        c2['D'] = min(2, c['D'] + 1)
        c2['T'] = c['T'] + 1
        if c['n'] == 2 and c['F']:
            c2['F'] = 2
        c2['name'] = c['name'] + '-deep'
        c2['cost'] = c['cost'] * 10
        th.append(c2)
    return q + th


def main():
    t = tier()
    cfgs = configs(t)
    cap = int(os.environ.get('VERIF_CAP_S', '0')) or (None if t == 'quick' else 2400)
    for c in cfgs:
        c['max_seconds'] = cap
    out, complete = run_e1(
        'C08', [(DRIVER, cfgs, kwargs_of('sparse' if t == 'quick' else 'all'))],
        rule='explicit-state exploration of the fault prefixes (crash, restart, isolate/rejoin, directed stall/resume) in '
             'every Supvisors state within the deviation bound; from the explored states (quick: every state reached by a '
             'deviation, a fault or a request and every terminal state; thorough: every state) the fair closure is run '
             '(disturbances stop, stalls resume, everything delivered FIFO, live instances tick round-robin for K rounds, '
             '3K before reporting): every member of a group of mutually reachable non-isolated instances must be in '
             'OPERATION with no start/stop job pending',
        assumptions=['proviso of the statement: TIMEOUT selected or the required instances alive, strategy not SHUTDOWN',
                     'K = 12 rounds (36 on retry)', 'groups whose reachability relation is not an equivalence are not judged'])
    return out.finish(exhaustive=complete)


def replay(payload):
    return replay_e1(payload, {'cluster': DRIVER})
