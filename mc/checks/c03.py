"""C03 - start sequences are honoured for applications and their processes."""
import itertools
import os

from ..drivers.jobs import Jobs, StartOrderMonitor, RUNNING_LIKE, gt_state
from ..monitors import internal_errors
from ..report import tier
from .e1 import run_e1, replay_e1


class StartJobs(Jobs):
    """Adds the bounded-liveness half of the STOP starting failure strategy: once the in-flight starts have
    ended, the application is stopped."""
    name = 'jobs'

    def closure_check(self, w, cfg):
        w.round_robin(cfg.get('K', 12), settle=self.settle)
        obs = w.drain_observations()
        if internal_errors(obs):
            return None
        viols = [v for v in w.violations if v['signature'].startswith('C03')]
        w.violations = []
        if viols:
            return viols[0]
        if any(s.alive and s.fsm.state.name != 'OPERATION' for s in w.sups):
            return None     # membership trouble / distribution not over: judged by C08
        mon = next(m for m in w.monitors if isinstance(m, StartOrderMonitor))
        for (sender, app_name), q in sorted(mon.failed_required.items()):
            if mon.rv.procs[q]['starting_failure_strategy'] != 'STOP' or not w.sups[sender].alive:
                continue
            running = sorted((ns, i) for ns, info in mon.rv.procs.items() if info['app'] == app_name
                             for i in w.live() if gt_state(w, i, ns) in RUNNING_LIKE
                             and w.stop_behaviour.get((i, ns)) != 'mute')
            if running:
                return {'clause': 'STOP-strategy-application-not-stopped', 'signature': 'C03:STOP:not-stopped',
                        'sender': sender, 'application': app_name, 'failed': q, 'still_running': running}
        return None


DRIVER = StartJobs('C03', ['C03'])
BEH = ['run', 'backoff', 'retry', 'giveup', 'exit_ok', 'exit_bad']


def app(name, seq, progs, sfs='ABORT', **kw):
    a = {'name': name, 'start_sequence': seq, 'starting_failure_strategy': sfs, 'programs': progs}
    a.update(kw)
    return a


def prog(name, seq, required=False, wait_exit=False, load=10, **kw):
    p = {'name': name, 'start_sequence': seq, 'required': required, 'wait_exit': wait_exit, 'expected_loading': load}
    p.update(kw)
    return p


def base(name, apps, **kw):
    c = {'n': 2, 'apps': apps, 'T': 4, 'D': 0, 'behaviours': BEH, 'backoffs': 1, 'name': name, 'cost': 3}
    c.update(kw)
    return c


def configs(t):
    out = []
    # automatic distribution: two applications in sequence, processes in sequence, every failure strategy
    for sfs in ('ABORT', 'STOP', 'CONTINUE'):
        out.append(base(f'auto-2apps-{sfs}', [
            app('A', 1, [prog('a', 1, required=True), prog('b', 2)], sfs),
            app('B', 2, [prog('d', 1)])], phase='auto', job_kind='auto', T=4,
            behaviours=['run', 'backoff', 'giveup', 'exit_ok', 'exit_bad'] if sfs == 'ABORT' else ['run', 'backoff', 'giveup', 'exit_bad']))
    out.append(base('auto-waitexit', [
        app('A', 1, [prog('a', 1, wait_exit=True), prog('b', 2, required=True)]),
        app('Z', 0, [prog('z', 1)])], phase='auto', job_kind='auto', T=5))
    out.append(base('auto-seq0', [
        app('A', 1, [prog('a', 1), prog('n', 0)]),
        app('Z', 0, [prog('z', 1)]), app('B', 1, [prog('d', 2)])], phase='auto', job_kind='auto', T=4,
        behaviours=['run', 'exit_bad']))
    out.append(base('auto-mute-required-ABORT', [
        app('A', 1, [prog('a', 1, required=True), prog('b', 2)], 'ABORT'), app('B', 2, [prog('d', 1)])],
        phase='auto', job_kind='auto', T=7, mute=[[0, 'A:a', 'start'], [1, 'A:a', 'start']], behaviours=['run'],
        cost=4))
    out.append(base('auto-crash-host', [
        app('A', 1, [prog('a', 1, required=True, identifiers='10.0.0.2:25001'), prog('b', 2)], 'CONTINUE'),
        app('B', 2, [prog('d', 1)])], phase='auto', job_kind='auto', T=5, F=1, faults=['crash'], crashable=[1],
        behaviours=['run'], nicks=['aa', 'zz'], cost=4))
    # user requests on the Master and on a slave
    for who in (0, 1):
        for sfs in ('ABORT', 'STOP', 'CONTINUE'):
            out.append(base(f'start_application-on{who}-{sfs}', [
                app('A', 0, [prog('a', 1, required=True), prog('b', 1), prog('c', 2), prog('n', 0)], sfs)],
                triggers=[['rpc', who, 'start_application', ['CONFIG', 'A', False]]], T=4,
                behaviours=['run', 'backoff', 'giveup', 'exit_bad'] if who == 0 else ['run', 'giveup', 'backoff']))
    out.append(base('start_application-waitexit', [
        app('A', 0, [prog('a', 1, wait_exit=True), prog('b', 2, required=True), prog('c', 3)])],
        triggers=[['rpc', 1, 'start_application', ['LESS_LOADED', 'A', False]]], T=4))
    out.append(base('start_application-D1', [
        app('A', 0, [prog('a', 1, required=True), prog('b', 2)], 'ABORT')],
        triggers=[['rpc', 0, 'start_application', ['CONFIG', 'A', False]]], T=4, D=1,
        behaviours=['run', 'backoff', 'giveup'], cost=6))
    # the same after a prediction served by the same instance (a prediction must leave nothing behind)
    out.append(base('start_application-after-prediction-D1', [
        app('A', 0, [prog('a', 1, required=True), prog('b', 2)], 'ABORT')],
        setup=[['rpc', 0, 'test_start_application', ['CONFIG', 'A']]],
        triggers=[['rpc', 0, 'start_application', ['CONFIG', 'A', False]]], T=4, D=1,
        behaviours=['run', 'backoff', 'giveup'], cost=6))
    out.append(base('start_application-mute-D1', [
        app('A', 0, [prog('a', 1, required=True), prog('b', 2)], 'STOP')],
        triggers=[['rpc', 0, 'start_application', ['CONFIG', 'A', False]]], T=7, D=1,
        mute=[[0, 'A:a', 'start'], [1, 'A:a', 'start']], behaviours=['run'], cost=6))
    # the LAST job of the plan is the one that is given up (the jobs of the application end with it)
    for sfs in ('STOP', 'ABORT'):
        out.append(base(f'start_application-mute-last-{sfs}', [
            app('A', 0, [prog('a', 1), prog('b', 2, required=True)], sfs)],
            triggers=[['rpc', 0, 'start_application', ['CONFIG', 'A', False]]], T=7,
            mute=[[0, 'A:b', 'start'], [1, 'A:b', 'start']], behaviours=['run', 'stopped'], cost=4))
    # a required program that fits nowhere (no resource: its only permitted instance is already loaded): same strategies
    only0 = '10.0.0.1:25000'
    Bld = app('B', 0, [prog('d', 0, load=10)])
    for sfs in ('STOP', 'ABORT'):
        out.append(base(f'start_application-no-resource-last-{sfs}', [
            app('A', 0, [prog('a', 1), prog('b', 2, required=True, load=100, identifiers=only0)], sfs), Bld],
            setup=[['ustart', 0, 'B:d']],
            triggers=[['rpc', 0, 'start_application', ['CONFIG', 'A', False]]], T=4, behaviours=['run', 'stopped']))
        out.append(base(f'start_application-no-resource-group-{sfs}', [
            app('A', 0, [prog('a', 1, required=True, load=100, identifiers=only0), prog('b', 1), prog('c', 2)], sfs), Bld],
            setup=[['ustart', 0, 'B:d']],
            triggers=[['rpc', 0, 'start_application', ['CONFIG', 'A', False]]], T=4, behaviours=['run', 'stopped']))
    # an optional program of the first group fits nowhere: the rest of the group, then the next group, in that order
    out.append(base('start_application-no-resource-optional', [
        app('A', 0, [prog('a', 1, load=100, identifiers=only0), prog('b', 1), prog('c', 2)], 'CONTINUE'), Bld],
        setup=[['ustart', 0, 'B:d']],
        triggers=[['rpc', 0, 'start_application', ['CONFIG', 'A', False]]], T=4, behaviours=['run', 'stopped']))
    # the host of a required program is lost after the request and before any acknowledgement
    for sfs in ('ABORT', 'STOP'):
        out.append(base(f'host-lost-before-ack-{sfs}', [
            app('A', 0, [prog('a', 1, required=True, identifiers='10.0.0.2:25001'), prog('b', 2), prog('c', 3)], sfs)],
            triggers=[['rpc', 0, 'start_application', ['CONFIG', 'A', False]]], T=5, F=1, faults=['crash'], crashable=[1],
            mute=[[1, 'A:a', 'start']], behaviours=['run'], nicks=['aa', 'zz'], cost=4))
    out.append(base('host-lost-D1', [
        app('A', 0, [prog('a', 1, required=True, identifiers='10.0.0.2:25001'), prog('b', 2)], 'ABORT')],
        triggers=[['rpc', 0, 'start_application', ['CONFIG', 'A', False]]], T=4, D=1, F=1, faults=['crash'], crashable=[1],
        behaviours=['run'], nicks=['aa', 'zz'], cost=6))
    out.append(base('two-applications', [
        app('A', 0, [prog('a', 1), prog('b', 2)]), app('B', 0, [prog('d', 1), prog('e', 2)])],
        triggers=[['rpc', 0, 'start_application', ['CONFIG', 'A', False]],
                  ['rpc', 1, 'start_application', ['CONFIG', 'B', False]]], T=3, behaviours=['run', 'exit_bad']))
    out.append(base('restart_application', [
        app('A', 0, [prog('a', 1, required=True), prog('b', 2)])],
        setup=[['rpc', 0, 'start_application', ['CONFIG', 'A', False]]],
        triggers=[['rpc', 1, 'restart_application', ['CONFIG', 'A', False]]], T=4,
        behaviours=['run', 'stopped', 'exit_bad', 'backoff', 'giveup']))
    # deeper variants (one more deviation, one more tick): exploratory only (VERIF_DEEP=1), see DESIGN.md 10.6 -
    # they raise signals that have not been classified, so they are not part of the registered thorough command
    if t == 'thorough' and os.environ.get('VERIF_DEEP'):
        deep = []
        for c in out:
            c2 = dict(c)
            c2['D'] = min(2, c['D'] + 1)
            c2['T'] = c['T'] + 1
            c2['name'] = c['name'] + '-deep'
            c2['cost'] = c['cost'] * 10
            deep.append(c2)
        c3 = base('n3-auto', [app('A', 1, [prog('a', 1, required=True), prog('b', 2)], 'ABORT'),
                              app('B', 2, [prog('d', 1)])], phase='auto', job_kind='auto', T=4, n=3, cost=30)
        out = out + deep + [c3]
    return out


def kwargs_of(c):
    return {'deviations': c['D'], 'closure': 'all' if tier() == 'thorough' else 'sparse', 'max_seconds': c.get('max_seconds')}


def main():
    t = tier()
    cfgs = configs(t)
    cap = int(os.environ.get('VERIF_CAP_S', '0')) or (None if t == 'quick' else 2400)
    for c in cfgs:
        c['max_seconds'] = cap
    out, complete = run_e1(
        'C03', [(DRIVER, cfgs, kwargs_of)],
        rule='explicit-state exploration of automatic distribution and of start / restart application requests on the '
             'Master and on a slave over tiny rules files (application and program start_sequence in {0,1,2,3}, wait_exit, '
             'required, ABORT / STOP / CONTINUE) with every process behaviour (runs, backs off then runs, backs off to '
             'FATAL, exits early, never answers, host lost) interleaved with ticks and deliveries; every emitted start '
             'request is judged against the true Supervisor process states and the sender\'s own earlier requests; from the '
             'states reached by a fault / request and from the terminal states a fair closure checks that an application '
             'whose required process failed under the STOP strategy ends stopped',
        assumptions=['process transitions are urgent with respect to ticks (a tick overtaking one is a deviation)',
                     'named applications and programs only (patterns are the business of C18)'])
    return out.finish(exhaustive=complete)


def replay(payload):
    return replay_e1(payload, {'jobs': DRIVER})
