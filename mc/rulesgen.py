"""Rules documents from plain (JSON-able) descriptions."""

APP_KEYS = ('distribution', 'identifiers', 'start_sequence', 'stop_sequence', 'starting_strategy',
            'starting_failure_strategy', 'running_failure_strategy', 'operational_status')
PRG_KEYS = ('reference', 'identifiers', 'start_sequence', 'stop_sequence', 'required', 'wait_exit', 'expected_loading',
            'starting_failure_strategy', 'running_failure_strategy')


def _val(v):
    if v is True:
        return 'true'
    if v is False:
        return 'false'
    return str(v)


def _esc(s):
    return str(s).replace('&', '&amp;').replace('<', '&lt;').replace('>', '&gt;').replace('"', '&quot;')


def rules_xml(apps, aliases=None, models=None):
    out = ['<?xml version="1.0" encoding="UTF-8" standalone="no"?>', '<root>']
    for name, text in (aliases or {}).items():
        out.append(f'  <alias name="{_esc(name)}">{_esc(text)}</alias>')
    for m in (models or []):
        out.append(f'  <model name="{_esc(m["name"])}">')
        for k in PRG_KEYS:
            if k in m:
                out.append(f'    <{k}>{_esc(_val(m[k]))}</{k}>')
        out.append('  </model>')
    for a in apps:
        attr = f'name="{_esc(a["name"])}"' if 'name' in a else f'pattern="{_esc(a["pattern"])}"'
        out.append(f'  <application {attr}>')
        for k in APP_KEYS:
            if k in a:
                out.append(f'    <{k}>{_esc(_val(a[k]))}</{k}>')
        if a.get('programs') is not None:
            out.append('    <programs>')
            for p in a['programs']:
                pattr = f'name="{_esc(p["name"])}"' if 'name' in p else f'pattern="{_esc(p["pattern"])}"'
                out.append(f'      <program {pattr}>')
                for k in PRG_KEYS:
                    if k in p:
                        out.append(f'        <{k}>{_esc(_val(p[k]))}</{k}>')
                out.append('      </program>')
            out.append('    </programs>')
        out.append('  </application>')
    out.append('</root>')
    return '\n'.join(out)


def groups_of(apps, extra=None):
    """Supervisor groups implied by a rules description: {group: {process: {}}} (named programs only)."""
    g = {}
    for a in apps:
        if 'name' in a:
            g[a['name']] = {p['name']: dict(p.get('_sup', {})) for p in a.get('programs') or [] if 'name' in p}
    for k, v in (extra or {}).items():
        g.setdefault(k, {}).update(v)
    return g
