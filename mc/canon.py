"""Canonical form of a World (or of any object graph) for state matching.

Generic walker over vars() with a *blacklist*: a field added by a code change is included by default
(over-fine, never unsound).  Each dropped field carries its argument in DESIGN.md section 2.1.

Floats are time values.  They are replaced by (half-second bucket, rank among all time values of the
state): the virtual clock only takes values on a 0.5 s grid plus an epsilon per read (ticks at x+2.5 s,
restarts 1 s later), thresholds in the code are multiples of 5 s, so durations are never within an
epsilon of a threshold and two states with equal buckets and ranks take the same branches; order is
kept exactly.
"""
import collections
import enum
import hashlib

# fields that only influence logging or display, back references, or objects handled elsewhere
SKIP = frozenset({
    # back references and services
    'logger', 'supvisors', 'world', 'sup', 'rpc', 'listener', 'options', 'supervisor_data', 'sessions',
    'supervisor_updater', 'server_options', 'host_compiler', 'process_compiler', 'stats_collector',
    'discovery_handler', 'external_publisher', 'starter_model', 'supervisord', 'scenario',
    # logging-only state
    'sync_alerts', 'connected', 'last_used', 'class_name',
    # display-only values (wall-clock integers: only their zero-ness is observable, see ZERONESS)
    'last_event_mtime', 'when', 'description', '_status_tree',
    # derived duration (now_monotonic - start_monotonic, both kept): ranking a duration among absolute times made
    # the rank depend on the number of clock reads, i.e. on hidden state (found by the shuffled-order self-test)
    'uptime',
    # network identity: constant per scenario
    'local_network', 'simple_address', 'remote_view', 'local_view', '_proxy', 'supvisors_id',
    # shared structures reached through another path
    'application', 'instance_status', 'status', 'supvisors_config', 'config', 'group',
    # harness
    'gt_started_round',
})


# wall-clock integers (seconds since the epoch) that the code only tests against zero
ZERONESS = frozenset({'start', 'stop', 'now'})

# per-type display-only fields
SKIP_BY_TYPE = {'SupvisorsTimes': frozenset({'local_mtime', 'local_time', 'remote_time', 'remote_mtime',
                                             'start_local_mtime', 'logger', 'identifier'})}


class Canon:
    __slots__ = ('memo', 'floats')

    def __init__(self):
        self.memo = {}
        self.floats = []

    def walk(self, o):
        if o is None or o is True or o is False:
            return o
        t = type(o)
        if t is int or t is str:
            return o
        if t is float:
            self.floats.append(o)
            return ('f', len(self.floats) - 1)
        if isinstance(o, enum.Enum):
            return o.name
        if t is list or t is tuple or t is collections.deque:
            return tuple([self.walk(x) for x in o])
        if t is set or t is frozenset:
            return ('set',) + tuple(sorted((self.walk(x) for x in o), key=repr))
        if t is dict or t is collections.OrderedDict or t is collections.defaultdict:
            items = []
            for k, v in o.items():
                if type(k) is str:
                    if k in SKIP:
                        continue
                    if k in ZERONESS and type(v) in (int, float):
                        items.append((k, v != 0))
                        continue
                items.append((self.walk(k), self.walk(v)))
            if t is collections.OrderedDict:
                return ('od',) + tuple(items)
            items.sort(key=lambda kv: repr(kv[0]))
            return ('d',) + tuple(items)
        if isinstance(o, int):
            return int(o)
        i = id(o)
        if i in self.memo:
            return ('ref', self.memo[i])
        self.memo[i] = len(self.memo)
        try:
            d = vars(o)
        except TypeError:
            return ('obj', t.__name__)
        skip_t = SKIP_BY_TYPE.get(t.__name__, ())
        return (t.__name__,) + tuple([(k, self.walk(v)) for k, v in sorted(d.items())
                                      if k not in SKIP and k not in skip_t])

    def finish(self, structure):
        """Attach bucket and rank of every time value."""
        fl = self.floats
        order = {v: r for r, v in enumerate(sorted(set(fl)))}
        times = tuple((int(v * 2.0), order[v]) for v in fl)
        return structure, times


def digest(obj):
    return hashlib.blake2b(repr(obj).encode(), digest_size=12).digest()


def canon_sup(c, s):
    if not s.alive:
        return ('dead', s.idx, s.incarnation > 0)
    ps = s.rpc_handler.proxy_server
    # everything of the fake Supervisor process table that a later handshake snapshot copies into the state
    procs = tuple((ns, int(p.state), p.backoff, bool(p.supvisors_config.program_config.disabled), p.extra_args,
                   p.pid, p.spawnerr, p.laststart != 0, p.laststop != 0, p.exitstatus,
                   c.walk(float(p.laststart_monotonic)), c.walk(float(p.laststop_monotonic)), p.obsolete,
                   p.config.autorestart)
                  for ns, p in s.procs())
    return (s.idx, s.listener.counter, type(s.fsm.instance).__name__,
            c.walk(s.fsm.instance.lost_instances), len(s.fsm.instance.lost_processes),
            c.walk(s.context.instances), c.walk(s.context.applications), c.walk(s.context.start_date),
            c.walk(s.state_modes), c.walk(s.starter), c.walk(s.stopper), c.walk(s.failure_handler),
            c.walk(s.mapper.nodes), c.walk(s.mapper.stereotypes), tuple(sorted(ps.proxies)), ps.stop_event.flag,
            int(s.supervisord.options.mood), tuple(s.end_orders), procs)


def canon_world(w, extra=None):
    """Hashable canonical key of the whole world, including channels, faults in force and budgets."""
    c = Canon()
    parts = [canon_sup(c, s) for s in w.sups]
    chans = tuple((k, c.walk(q)) for k, q in sorted(w.channels.items()) if q)
    env = (tuple(sorted(tuple(sorted(x)) for x in w.cut)), tuple(sorted(w.stalled)),
           tuple(w.abs_ticks), c.walk(w.clock_t),
           tuple(sorted(w.start_behaviour.items())), tuple(sorted(w.stop_behaviour.items())),
           tuple(sorted(w.budget.items())),
           tuple((k, c.walk(h['t1']), h['released'],
                  c.walk([(a, v if a == 'ok' else type(v).__name__) for a, v in h['answers']]))
                 for k, h in sorted(getattr(w, 'hung', {}).items())),
           tuple((k, c.walk(h['t1']), c.walk(list(h['call']))) for k, h in sorted(getattr(w, 'lagging', {}).items())))
    mons = tuple(m.key(c) for m in w.monitors if hasattr(m, 'key'))
    structure, times = c.finish((parts, chans, env, mons, extra))
    return digest((structure, times))
