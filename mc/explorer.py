"""E1: explicit-state exploration of a World under FULL or DELAY-BOUNDED scheduling.

A *driver* supplies: the list of configurations, how to build the initial world of a configuration,
the environment menu, step monitors and (optionally) a bounded-liveness closure oracle.
The explorer enumerates schedules, merges states on the canonical key, keeps parent pointers so that
every state has a replayable history, validates a subset of histories by replaying them from scratch
(identical canonical key after every step) and re-runs every violation twice before reporting it.
"""
import collections
import multiprocessing
import json
import os
import random
import sys
import traceback
import zlib

from . import world as W
from .canon import canon_world
from .report import PERF


class Driver:
    """Base class; concrete drivers live in mc/drivers/."""
    prop = 'C00'
    name = 'driver'
    full = False            # FULL interleaving instead of delay bounding
    urgent_procs = False    # pending process transitions come before ticks (ticks overtaking = deviation)

    def configs(self, tier):
        raise NotImplementedError

    def build(self, cfg):
        """Return the initial World of a configuration (already started)."""
        raise NotImplementedError

    def env_events(self, w, cfg):
        """Environment menu: ticks, process transitions, faults, user RPCs."""
        return []

    def step_check(self, w, ev, obs, cfg):
        """Transition monitors: return a list of violation dicts."""
        return []

    cut_on_known_closure = True

    def closure_check(self, w, cfg):
        """Bounded liveness from this state (w is a private copy).  Return a violation dict or None."""
        return None

    def wants_closure(self, w, ev, cfg):
        return True

    def extra_key(self, w, cfg):
        return None

    def observe(self, w, cfg):
        """Outcome label of a state, used to count distinct observed outcomes (vacuity check)."""
        return tuple(s[1] for s in w.summary())

    def prune(self, w, ev, obs, cfg):
        """Return True to stop expanding below this state (goal reached / horizon)."""
        return False


def tick_menu(w, max_ticks, drift=1):
    """A live instance may tick if it is at most `drift`-1 ticks ahead of the slowest live instance."""
    live = w.live()
    if not live:
        return []
    lo = min(w.abs_ticks[i] for i in live)
    return [('tick', i) for i in live if w.abs_ticks[i] < max_ticks and w.abs_ticks[i] < lo + drift]


def successors(w, cfg, driver):
    pend = w.deliverable()
    env = driver.env_events(w, cfg)
    if driver.full or cfg.get('full'):
        return [(('deliver',) + k, 0) for k in pend] + [(e, 0) for e in env]
    out = []
    if pend:
        out.append((('deliver',) + pend[0], 0))
        # a slow exchange is another way of performing the default delivery: no deviation (it has its own budget)
        slow = [e for e in env if e[0] in ('hang', 'lag') and (e[1], e[2]) == pend[0]]
        out += [(e, 0) for e in slow]
        out += [(('deliver',) + k, 1) for k in pend[1:]]
        out += [(e, 1) for e in env if e not in slow]
    elif driver.urgent_procs:
        urgent = [e for e in env if e[0] == 'proc']
        if urgent:
            out += [(e, 0) for e in urgent]
            out += [(e, 1) for e in env if e[0] != 'proc']
        else:
            out += [(e, 0) for e in env]
    else:
        out += [(e, 0) for e in env]
    return out


class Result:
    def __init__(self):
        self.states = 0
        self.transitions = 0
        self.validated = 0
        self.closures = 0
        self.max_depth = 0
        self.capped = False
        self.cut_branches = 0
        self.outcomes = collections.Counter()
        self.cut_other = collections.Counter()   # branches cut because another property's monitor fired
        self.violations = []   # (violation dict, events, closure flag)
        self.samples = []
        self.wall = 0.0
        self.error = None
        self.layers = {}
        self.state_hashes = None


def _history(table, key):
    evs = []
    keys = []
    while True:
        parent, ev, _used = table[key]
        if parent is None:
            break
        evs.append(ev)
        keys.append(key)
        key = parent
    evs.reverse()
    keys.reverse()
    return evs, keys


def replay(driver, cfg, events, keys=None, closure=False):
    """Linear re-execution from scratch.  Returns (world, violations met, divergence index or None)."""
    w = driver.build(cfg)
    w.drain_observations()
    viols = []
    for n, ev in enumerate(events):
        w.apply(tuple(ev) if isinstance(ev, list) else ev)
        obs = w.drain_observations()
        viols += driver.step_check(w, ev, obs, cfg)
        if keys is not None and canon_world(w, driver.extra_key(w, cfg)) != keys[n]:
            return w, viols, n
    if closure:
        vs = driver.closure_check(w, cfg)
        viols += vs if isinstance(vs, list) else [vs] if vs else []
    return w, viols, None


def explore(driver, cfg, deviations=0, max_states=None, max_seconds=None, closure='all',
            validate_every=997, seed=0, known=()):
    """Explore one configuration.  `closure`: 'all' | 'sparse' | 'none'.  `known`: signatures of open findings
    (branches on which they fire are cut, as documented in DESIGN.md section 6)."""
    res = Result()
    t0 = PERF()
    if not max_states and str(cfg.get('name', '')).endswith('-deep'):
        # the deeper variants of the thorough tier are explored breadth-first up to a fixed number of states (a state cap,
        # unlike a time cap, explores the same region on every machine); the evidence reports them as capped
        max_states = int(os.environ.get('VERIF_DEEP_MAX_STATES', '15000'))
    if not max_seconds:
        # safety net of the quick tier: a runaway configuration is reported as capped, never left running
        max_seconds = int(os.environ.get('VERIF_HARD_CAP_S', '900'))
    rnd = random.Random(int(os.environ.get('VERIF_SHUFFLE') or seed or 0))
    w = driver.build(cfg)
    w.drain_observations()
    root = canon_world(w, driver.extra_key(w, cfg))
    table = {root: (None, None, 0)}
    frontier = collections.deque([(root, zlib.compress(W.snapshot(w), 1))])
    seen_viol = set()
    depth_of = {root: 0}
    res.outcomes[driver.observe(w, cfg)] += 1

    def note(v, key_parent, ev, is_closure):
        sig = v['signature']
        if sig in seen_viol:
            return
        seen_viol.add(sig)
        evs, _ = _history(table, key_parent)
        if ev is not None:
            evs = evs + [ev]
        res.violations.append((v, evs, is_closure))

    while frontier:
        if max_states and len(table) >= max_states:
            res.capped = True
            break
        if max_seconds and PERF() - t0 > max_seconds:
            res.capped = True
            break
        key0, blob = frontier.popleft()
        used0 = table[key0][2]
        raw = zlib.decompress(blob)
        w0 = W.restore(raw)
        succ = successors(w0, cfg, driver)
        if os.environ.get('VERIF_SHUFFLE'):
            rnd.shuffle(succ)   # self-test only: a different visiting order must not change any canonical key
        # NOTE: the successor order is never permuted: the sparse closure set and the parent pointers must not
        # depend on VERIF_SEED (the seed only permutes the order in which configurations are scheduled)
        succ = [(ev, cost) for ev, cost in succ if used0 + cost <= deviations]
        for pos, (ev, cost) in enumerate(succ):
            used = used0 + cost
            # the last successor reuses the world restored for the menu (saves one unpickling per state)
            w = w0 if pos == len(succ) - 1 else W.restore(raw)
            W.activate(w)
            w.apply(ev)
            obs = w.drain_observations()
            res.transitions += 1
            viols = driver.step_check(w, ev, obs, cfg)
            if viols:
                for v in viols:
                    if v.get('cut_only'):
                        res.cut_other[v['signature']] += 1
                    else:
                        note(v, key0, ev, False)
                res.cut_branches += 1
                continue
            key = canon_world(w, driver.extra_key(w, cfg))
            old = table.get(key)
            if old is None or old[2] > used:
                new = old is None
                table[key] = (key0, ev, used)
                depth_of[key] = depth_of[key0] + 1
                if depth_of[key] > res.max_depth:
                    res.max_depth = depth_of[key]
                stop = driver.prune(w, ev, obs, cfg)
                if new:
                    res.outcomes[driver.observe(w, cfg)] += 1
                    do_closure = closure == 'all' and driver.wants_closure(w, ev, cfg)
                    if closure == 'sparse' and driver.wants_closure(w, ev, cfg):
                        # complete over a stated set: states reached by a deviation, a fault or a user
                        # request, and terminal states of the bounded exploration
                        do_closure = (cost > 0 or ev[0] not in ('deliver', 'tick', 'proc')
                                      or not [x for x in successors(w, cfg, driver)
                                              if used + x[1] <= deviations])
                    if do_closure:
                        raw_new = W.snapshot(w)
                        wc = W.restore(raw_new)
                        vs = driver.closure_check(wc, cfg)
                        res.closures += 1
                        for v in (vs if isinstance(vs, list) else [vs] if vs else []):
                            note(v, key, None, True)
                            # the closure is a probe run on a copy: a known finding met by it cuts the branch
                            # only for drivers whose later states would merely restate it
                            if v['signature'] in known and driver.cut_on_known_closure:
                                if not stop:
                                    res.cut_branches += 1
                                stop = True
                        W.activate(w)
                        if not stop:
                            frontier.append((key, zlib.compress(raw_new, 1)))
                        continue
                if not stop:
                    frontier.append((key, zlib.compress(W.snapshot(w), 1)))
    res.states = len(table)
    # from-scratch validation of a deterministic subset of histories
    keys_sorted = sorted(table)
    picks = keys_sorted[::validate_every][:25]
    if keys_sorted and keys_sorted[-1] not in picks:
        picks.append(keys_sorted[-1])
    deepest = max(depth_of, key=lambda k: (depth_of[k], k))
    if deepest not in picks:
        picks.append(deepest)
    for key in picks:
        evs, keys = _history(table, key)
        if not evs:
            continue
        _w, _v, div = replay(driver, cfg, evs, keys)
        if div is not None:
            res.error = f'non-determinism: replay of a recorded history diverges at step {div} ({evs[div]!r})'
            break
        res.validated += 1
        if len(res.samples) < 2:
            res.samples.append({'config': cfg, 'events': evs[:60], 'length': len(evs)})
    res.wall = PERF() - t0
    res.state_hashes = None
    return res


# ---------------------------------------------------------------------------------------------
# parallel runner
# ---------------------------------------------------------------------------------------------
_DRIVERS = []


def _work(job):
    b, idx, cfg, kwargs = job
    try:
        return b, idx, explore(_DRIVERS[b], cfg, **kwargs)
    except Exception:
        r = Result()
        r.error = traceback.format_exc()
        return b, idx, r


def filter_deep(prop, configs):
    """The '-deep' variants of the thorough tier are registered only for the checks whose thorough command was run
    to the end on the final tree (mc/deep_validated.json, see DESIGN.md 10.6); VERIF_DEEP=1 explores them anyway."""
    if os.environ.get('VERIF_DEEP'):
        return configs
    try:
        with open(os.path.join(os.path.dirname(os.path.abspath(__file__)), 'deep_validated.json')) as f:
            ok = set(json.load(f))
    except OSError:
        ok = set()
    return [c for c in configs if prop in ok or not str(c.get('name', '')).endswith('-deep')]


def run_batches(batches, workers=None):
    """batches: list of (driver, configs, kwargs_of).  Every configuration is one job of a shared pool
    (parallelism over configurations; each exploration itself is sequential and deterministic).
    Returns the per-batch list of results, in configuration order."""
    global _DRIVERS
    _DRIVERS = [b[0] for b in batches]
    jobs = []
    for b, (_driver, configs, kwargs_of) in enumerate(batches):
        for i, cfg in enumerate(configs):
            jobs.append((b, i, cfg, kwargs_of(cfg)))
    # costly configurations first; VERIF_SEED permutes the configurations of equal cost
    sd = int(os.environ.get('VERIF_SEED', '0') or 0)
    if sd:
        random.Random(sd).shuffle(jobs)
    jobs.sort(key=lambda j: -j[2].get('cost', 1))
    workers = workers or min(len(jobs), int(os.environ.get('VERIF_WORKERS', '16'))) or 1
    results = [[None] * len(b[1]) for b in batches]
    if workers <= 1 or len(jobs) == 1:
        for job in jobs:
            b, i, r = _work(job)
            results[b][i] = r
    else:
        ctx = multiprocessing.get_context('fork')
        with ctx.Pool(workers, maxtasksperchild=4) as pool:
            for b, i, r in pool.imap_unordered(_work, jobs, chunksize=1):
                results[b][i] = r
    return results


def run_configs(driver, configs, kwargs_of, workers=None):
    return run_batches([(driver, configs, kwargs_of)], workers)[0]


def confirm_and_report(outcome, driver, cfg, violation, events, is_closure):
    """Re-run a violation twice from scratch; report only if it reproduces with the same signature."""
    sig = violation['signature']
    for _ in range(2):
        _w, viols, _ = replay(driver, cfg, events, None, closure=is_closure)
        if sig not in [v['signature'] for v in viols]:
            raise RuntimeError(f'violation {sig} did not reproduce on replay: harness non-determinism\n'
                               f'config={cfg}\nevents={events}')
    payload = {'driver': driver.name, 'config': cfg, 'events': events, 'closure': is_closure,
               'hashseed': os.environ.get('PYTHONHASHSEED')}
    return outcome.report(violation, payload)


def aggregate(outcome, driver, configs, results, rule, assumptions=()):
    """Fold per-configuration results into the evidence of a check."""
    states = sum(r.states for r in results)
    transitions = sum(r.transitions for r in results)
    validated = sum(r.validated for r in results)
    outcomes = collections.Counter()
    samples = []
    capped = 0
    for cfg, r in zip(configs, results):
        if r.error:
            print(f'HARNESS ERROR in {driver.name} config={cfg}:\n{r.error}')
            sys.stdout.flush()
            sys.exit(2)
        outcomes.update(r.outcomes)
        capped += 1 if r.capped else 0
        if r.samples and len(samples) < 3:
            samples.append(r.samples[0])
        for v, evs, is_closure in r.violations:
            confirm_and_report(outcome, driver, cfg, v, evs, is_closure)
    cov = outcome.coverage
    cov['states'] = cov.get('states', 0) + states
    cov['transitions'] = cov.get('transitions', 0) + transitions
    cov['traces_validated_against_impl'] = cov.get('traces_validated_against_impl', 0) + validated
    cov['configurations'] = cov.get('configurations', 0) + len(configs)
    cov['closures_evaluated'] = cov.get('closures_evaluated', 0) + sum(r.closures for r in results)
    cov['branches_cut_on_findings'] = cov.get('branches_cut_on_findings', 0) + sum(r.cut_branches for r in results)
    cov['configurations_capped'] = cov.get('configurations_capped', 0) + capped
    other = collections.Counter()
    for r in results:
        other.update(r.cut_other)
    if other:
        tot = cov.setdefault('branches_cut_on_other_properties', {})
        for k, n in other.items():
            tot[k] = tot.get(k, 0) + n
    cov['max_depth'] = max(cov.get('max_depth', 0), max((r.max_depth for r in results), default=0))
    cov.setdefault('drivers', {})[driver.name] = {
        'configurations': len(configs), 'states': states, 'transitions': transitions,
        'distinct_outcomes': len(outcomes), 'capped': capped,
        'outcomes_top': [[list(k) if isinstance(k, tuple) else k, n] for k, n in outcomes.most_common(5)]}
    cov.setdefault('per_configuration', [])
    for cfg, r in zip(configs, results):
        cov['per_configuration'].append({'driver': driver.name, 'name': cfg.get('name', '?'), 'states': r.states,
                                         'transitions': r.transitions, 'wall_s': round(r.wall, 1),
                                         'capped': r.capped, 'max_depth': r.max_depth,
                                         'closures': r.closures})
    cov['distinct_outcomes'] = cov.get('distinct_outcomes', 0) + len(outcomes)
    cov.setdefault('samples', [])
    cov['samples'] += samples
    cov['rule'] = (cov.get('rule', '') + ' | ' if cov.get('rule') else '') + rule
    for a in assumptions:
        if a not in outcome.assumptions:
            outcome.assumptions.append(a)
    return capped == 0
