"""Transition monitors and observation helpers shared by the E1 drivers.

Monitors are plain picklable objects stored in world.monitors; World calls their hooks synchronously
(on_fsm_state, on_instance_state, on_emit, on_rpc, on_rpc_fail, after_step).  They append violation dicts
{'clause', 'signature', ...} to world.violations; the driver's step_check drains that list.
Everything they read is either ground truth owned by the harness or a value a user could read through the
XML-RPC status API of the instance (the same payload builders are called directly so that the
state gating of the API does not hide values in SYNCHRONIZATION / ELECTION).
"""
import json
import re

from supervisor.states import ProcessStates, RUNNING_STATES
from supvisors.ttypes import SUPVISORS_PUBLICATION

# ---------------------------------------------------------------------------------------------
# the verifier's own copies of the documented graphs (typed from the statements, not imported)
# ---------------------------------------------------------------------------------------------
FSM_GRAPH = {
    'OFF': {'SYNCHRONIZATION'},
    'SYNCHRONIZATION': {'OFF', 'ELECTION'},
    'ELECTION': {'OFF', 'SYNCHRONIZATION', 'DISTRIBUTION', 'SHUTTING_DOWN'},
    # SYNCHRONIZATION: same reading as for CONCILIATION below (RESYNC strategy: documented return to SYNCHRONIZATION)
    'DISTRIBUTION': {'OFF', 'SYNCHRONIZATION', 'ELECTION', 'OPERATION', 'RESTARTING', 'SHUTTING_DOWN'},
    'OPERATION': {'OFF', 'SYNCHRONIZATION', 'ELECTION', 'CONCILIATION', 'RESTARTING', 'SHUTTING_DOWN'},
    # ELECTION: the statement lists the returns to OFF, SYNCHRONIZATION and ELECTION for the working states
    # (see DESIGN.md, C02 and finding 19: the implementation's table lacked this edge and deadlocked)
    'CONCILIATION': {'OFF', 'SYNCHRONIZATION', 'ELECTION', 'OPERATION', 'RESTARTING', 'SHUTTING_DOWN'},
    'RESTARTING': {'FINAL'},
    'SHUTTING_DOWN': {'FINAL'},
    'FINAL': set(),
}
MASTER_DRIVEN = ('DISTRIBUTION', 'OPERATION', 'CONCILIATION', 'RESTARTING', 'SHUTTING_DOWN')
WORKING = ('DISTRIBUTION', 'OPERATION', 'CONCILIATION')

INSTANCE_GRAPH = {
    'STOPPED': {'CHECKING'},
    'CHECKING': {'STOPPED', 'CHECKED', 'FAILED', 'ISOLATED'},
    'CHECKED': {'RUNNING', 'FAILED'},
    'RUNNING': {'FAILED'},
    'FAILED': {'STOPPED', 'ISOLATED'},
    'ISOLATED': set(),
}


# ---------------------------------------------------------------------------------------------
# observation helpers
# ---------------------------------------------------------------------------------------------
def master_of(s):
    """What get_master_identifier returns (identifier or '')."""
    return s.rpc.get_master_identifier().get('identifier', '')


def instance_states(s):
    return {p['identifier']: p['statename'] for p in s.rpc.get_all_instances_info()}


def process_view(s):
    """Payload of get_all_process_info (built directly: the RPC is gated before DISTRIBUTION)."""
    return {f"{p['application_name']}:{p['process_name']}": p
            for p in (proc.serial() for app in s.context.applications.values() for proc in app.processes.values())}


def groups(w):
    """Partition of the live instances into groups of mutually reachable, mutually non-isolated instances.
    Returns None when the relation is not an equivalence (the statements do not cover that case)."""
    live = w.live()
    rel = {}
    for i in live:
        for j in live:
            if i == j:
                continue
            ok = frozenset((i, j)) not in w.cut
            if ok:
                si, sj = w.sups[i], w.sups[j]
                if si.context.instances[w.idents[j]].state.name == 'ISOLATED':
                    ok = False
                if sj.context.instances[w.idents[i]].state.name == 'ISOLATED':
                    ok = False
            rel[(i, j)] = ok
    out, seen = [], set()
    for i in live:
        if i in seen:
            continue
        g = [i] + [j for j in live if j != i and rel[(i, j)]]
        for a in g:
            for b in g:
                if a != b and not rel[(a, b)]:
                    return None
        for a in g:
            for b in live:
                if b not in g and rel[(a, b)]:
                    return None
        seen.update(g)
        out.append(sorted(g))
    return out


_TB_FRAME = re.compile(r'File "([^"]+)", line \d+, in (\S+)')


def traceback_signature(text):
    """exception type + innermost frame inside the supvisors package, from a logged traceback."""
    frames = _TB_FRAME.findall(text)
    pick = None
    for fn, func in frames:
        if '/supvisors/' in fn:
            pick = (fn.rsplit('/', 1)[-1], func)
    if pick is None and frames:
        pick = (frames[-1][0].rsplit('/', 1)[-1], frames[-1][1])
    last = [ln for ln in text.strip().splitlines() if ln and not ln.startswith(' ')]
    exc = last[-1].split(':')[0].split('.')[-1] if last else 'Exception'
    return f'{exc}@{pick[0]}:{pick[1]}' if pick else exc


def internal_errors(obs):
    """C16 observation: CRIT records carrying a traceback + exceptions that escaped a thread / an RPC."""
    out = []
    for idx, msg in obs['crit']:
        if 'Traceback' in msg:
            head = msg.split(':', 1)[0]
            out.append({'clause': 'critical-traceback', 'signature': 'C16:' + traceback_signature(msg),
                        'idx': idx, 'guard': head[:80], 'text': msg[-400:]})
    for f in obs['faults']:
        out.append({'clause': f['kind'], 'signature': f"C16:{f['exc']}@{f['where']}", 'idx': f['idx'],
                    'method': f['method'], 'text': f['text']})
    return out


# ---------------------------------------------------------------------------------------------
# C02: Supvisors state graph
# ---------------------------------------------------------------------------------------------
class FsmGraphMonitor:
    """Every published change of the Supvisors state of every instance is an edge of FSM_GRAPH; the
    Master-driven states are entered with a known RUNNING Master, slaves after their Master.

    "After its Master has": every entry of a slave into a Master-driven state must be matched by a distinct
    earlier entry of its Master into that state (entries are counted per instance life; a slave that follows
    the FIFO publications of its Master may lag behind by several states, but can never be ahead), or the Master
    must have entered that state since its own last election (a slave that re-elected on its own catches up)."""

    def __init__(self, n, qualifier=''):
        self.n = n
        self.entries = [dict() for _ in range(n)]          # instance -> {state: number of entries}
        self.epoch = [set() for _ in range(n)]             # instance -> states entered since its last (re-)election
        self.followed = [dict() for _ in range(n)]         # slave -> {(master, state): entries made following it}
        # narrows signatures to the configuration class in which they were met (known findings stay narrow)
        self.q = qualifier

    def key(self, c):
        return ('fsm', tuple(tuple(sorted(e.items())) for e in self.entries),
                tuple(tuple(sorted(f.items())) for f in self.followed), tuple(tuple(sorted(e)) for e in self.epoch))

    def on_restart(self, idx):
        self.entries[idx] = {}
        self.epoch[idx] = set()
        self.followed[idx] = {}
        for f in self.followed:
            for k in [k for k in f if k[0] == idx]:
                del f[k]

    def on_fsm_state(self, w, idx, old, new):
        s = w.sups[idx]
        if new not in FSM_GRAPH.get(old, ()):
            w.violations.append({'clause': 'edge-not-in-graph', 'signature': f'C02:edge:{old}->{new}',
                                 'idx': idx, 'old': old, 'new': new})
        self.entries[idx][new] = self.entries[idx].get(new, 0) + 1
        if new in ('OFF', 'SYNCHRONIZATION', 'ELECTION'):
            self.epoch[idx] = set()
        else:
            self.epoch[idx].add(new)
        if new in MASTER_DRIVEN:
            m = master_of(s)
            if not m:
                w.violations.append({'clause': 'master-driven-state-without-master',
                                     'signature': f'C02:no-master:{old}->{new}{self.q}', 'idx': idx})
                return
            if instance_states(s).get(m) != 'RUNNING':
                w.violations.append({'clause': 'master-not-seen-running',
                                     'signature': f'C02:master-not-running:{old}->{new}{self.q}', 'idx': idx,
                                     'master': m, 'seen': instance_states(s).get(m)})
            mi = w.idx_of[m]
            if mi != idx:
                ms = w.sups[mi]
                used = self.followed[idx].get((mi, new), 0)
                have = self.entries[mi].get(new, 0) if ms.alive else 0
                # a slave that went through an election of its own and catches up with a Master that has been in that
                # state since its last election is not ahead of it either
                if have <= used and not (ms.alive and new in self.epoch[mi]):
                    w.violations.append({'clause': 'slave-before-master',
                                         'signature': f'C02:slave-before-master:{old}->{new}{self.q}', 'idx': idx,
                                         'master': mi, 'master_alive': ms.alive,
                                         'master_state': ms.fsm.state.name if ms.alive else None,
                                         'master_entries': have, 'slave_entries_following_it': used})
                self.followed[idx][(mi, new)] = used + 1


# ---------------------------------------------------------------------------------------------
# C07: failure detection
# ---------------------------------------------------------------------------------------------
class DetectionMonitor:
    """Per (observer, peer), in observer-local ticks (see DESIGN.md C07)."""

    def __init__(self, n, inactivity, auto_fence):
        self.n = n
        self.I = inactivity
        self.fence = auto_fence
        self.m = {}
        for o in range(n):
            for p in range(n):
                self.m[(o, p)] = {'st': 'STOPPED', 'silent': 0, 'excused': False, 'failed_at': None,
                                  'ran': None}

    def key(self, c):
        return ('det', tuple((k, v['st'], v['silent'], v['excused'], v['failed_at'],
                              tuple(sorted(v['ran'])) if v['ran'] else None)
                             for k, v in sorted(self.m.items())))

    def reset_observer(self, o):
        for p in range(self.n):
            self.m[(o, p)] = {'st': 'STOPPED', 'silent': 0, 'excused': False, 'failed_at': None, 'ran': None}

    def peer_restarted(self, p):
        for o in range(self.n):
            self.m[(o, p)]['excused'] = True

    def on_rpc(self, w, rec):
        # reception of a peer TICK publication by rec['dst'] (about to be processed)
        if rec['name'] == 'sendRemoteCommEvent' and rec['args'][0] == SUPVISORS_PUBLICATION:
            try:
                _origin, (mtype, _body) = json.loads(rec['args'][1])
            except (ValueError, TypeError):
                return
            if mtype == 0 and rec['src'] != rec['dst']:
                o = w.sups[rec['dst']]
                if o.supervisord.options.mood < 1:
                    return  # a supervisord that was told to stop refuses the RPC: nothing is received
                # the implementation only takes remote ticks once the local instance passed its own handshake
                if o.context.local_status.state.name in ('CHECKED', 'RUNNING'):
                    self.m[(rec['dst'], rec['src'])]['silent'] = 0

    def on_rpc_fail(self, w, src, dst, name):
        self.m[(src, dst)]['excused'] = True

    def on_instance_state(self, w, o, peer_ident, old, new):
        p = w.idx_of[peer_ident]
        rec = self.m[(o, p)]
        so = w.sups[o]
        if new not in INSTANCE_GRAPH.get(old, ()):
            w.violations.append({'clause': 'instance-edge-not-in-graph', 'signature': f'C07:edge:{old}->{new}',
                                 'observer': o, 'peer': p})
        if new == 'ISOLATED' and o == p:
            w.violations.append({'clause': 'local-instance-isolated', 'signature': 'C07:local-isolated',
                                 'observer': o})
        if old == 'RUNNING' and new == 'FAILED' and o != p:
            sp_ = w.sups[p]
            premise = sp_.alive and not rec['excused'] and rec['silent'] < self.I - 1
            if premise:
                w.violations.append({'clause': 'live-peer-declared-failed', 'signature': 'C07:false-FAILED',
                                     'observer': o, 'peer': p, 'silent_local_ticks': rec['silent'],
                                     'inactivity_ticks': self.I})
            rec['failed_at'] = so.listener.counter
            # what the observer listed as running there just before the loss is judged at invalidation
            rec['ran'] = sorted(ns for ns, pv in process_view(so).items() if peer_ident in pv['identifiers'])
        elif new == 'FAILED':
            rec['failed_at'] = so.listener.counter
            rec['ran'] = sorted(ns for ns, pv in process_view(so).items() if peer_ident in pv['identifiers'])
        if old == 'FAILED' and new in ('STOPPED', 'ISOLATED'):
            if new == 'ISOLATED' and not self.fence:
                w.violations.append({'clause': 'isolated-without-auto-fence', 'signature': 'C07:ISOLATED-no-fence',
                                     'observer': o, 'peer': p})
            if self.fence and o != p:
                mid = so.state_modes.master_identifier
                mstate = so.state_modes.master_state
                if mid and mid != peer_ident and mstate is not None and mstate.name != 'ELECTION':
                    # ELECTION is not judged: the statement's "working state" does not say which side it is on
                    want = 'ISOLATED' if mstate.name in WORKING else 'STOPPED'
                    if new != want:
                        w.violations.append({'clause': 'fencing-rule', 'signature': f'C07:fence:{want}-expected',
                                             'observer': o, 'peer': p, 'got': new,
                                             'master_state': mstate.name})
            rec['failed_at'] = None
        if new == 'CHECKING':
            # the premise "has not restarted / RPCs succeed" runs from the start of the handshake
            rec['excused'] = False
        if new == 'RUNNING':
            rec['silent'] = 0
        rec['st'] = new

    def after_step(self, w, ev):
        if ev[0] == 'restart':
            self.reset_observer(ev[1])
            self.peer_restarted(ev[1])
            return
        if ev[0] != 'tick':
            # lost processes are FATAL and unlisted as soon as the peer is invalidated
            self._check_invalidated(w)
            return
        o = ev[1]
        so = w.sups[o]
        if not so.alive:
            return
        for p in range(self.n):
            if p == o:
                continue
            rec = self.m[(o, p)]
            rec['silent'] += 1
            if rec['st'] in ('RUNNING', 'CHECKED') and rec['silent'] > self.I:
                # silent = local ticks passed since the last reception, the one just handled included
                w.violations.append({'clause': 'silent-peer-not-detected', 'signature': 'C07:not-detected',
                                     'observer': o, 'peer': p, 'silent_local_ticks': rec['silent'],
                                     'inactivity_ticks': self.I})
            if rec['st'] == 'FAILED':
                # every local tick re-evaluates the state machine, which invalidates FAILED peers
                w.violations.append({'clause': 'failed-peer-not-invalidated', 'signature': 'C07:FAILED-stuck',
                                     'observer': o, 'peer': p})
        self._check_invalidated(w)

    def _check_invalidated(self, w):
        for (o, p), rec in self.m.items():
            if rec['ran'] and rec['st'] in ('STOPPED', 'ISOLATED'):
                so = w.sups[o]
                if so.alive:
                    view = process_view(so)
                    ident = w.idents[p]
                    for ns in rec['ran']:
                        pv = view.get(ns)
                        if pv is None:
                            continue
                        if ident in pv['identifiers']:
                            w.violations.append({'clause': 'lost-process-still-listed',
                                                 'signature': 'C07:lost-process-listed', 'observer': o,
                                                 'peer': p, 'process': ns})
                        elif not pv['identifiers'] and pv['statename'] != 'FATAL':
                            w.violations.append({'clause': 'lost-process-not-fatal',
                                                 'signature': 'C07:lost-process-not-FATAL', 'observer': o,
                                                 'peer': p, 'process': ns, 'shown': pv['statename']})
                rec['ran'] = None


# ---------------------------------------------------------------------------------------------
# C01 (c): automatic requests only from the Master
# ---------------------------------------------------------------------------------------------
class MasterOnlyMonitor:
    """A start/stop request that is not the consequence of a user request on the sender must come from an
    instance that regards itself as the Master."""

    def __init__(self):
        self.user_jobs = False  # set by drivers that issue user start/stop RPCs: monitor not applicable

    def key(self, c):
        return ('mo', self.user_jobs)

    def on_emit(self, w, rec):
        if rec['req'] not in ('START_PROCESS', 'STOP_PROCESS') or rec['cause'] or self.user_jobs:
            return
        s = w.sups[rec['src']]
        if master_of(s) != s.ident:
            w.violations.append({'clause': 'automatic-request-from-non-master',
                                 'signature': f'C01:non-master-{rec["req"]}', 'idx': rec['src'],
                                 'request': rec['req'], 'args': rec['args'], 'master_seen': master_of(s),
                                 'fsm': s.fsm.state.name})


# ---------------------------------------------------------------------------------------------
# observable snapshot: what a user can read through the XML-RPC status API (clock fields removed)
# ---------------------------------------------------------------------------------------------
CLOCK_FIELDS = frozenset({'now_monotonic', 'now', 'local_mtime', 'local_time', 'remote_mtime', 'remote_time',
                          'last_event_mtime', 'uptime', 'description', 'event_mtime'})


def _scrub(o):
    if isinstance(o, dict):
        return {k: _scrub(v) for k, v in sorted(o.items()) if k not in CLOCK_FIELDS}
    if isinstance(o, (list, tuple)):
        return [_scrub(x) for x in o]
    if isinstance(o, (set, frozenset)):
        return sorted(_scrub(x) for x in o)
    return o


def observable(s, inner=True):
    """Everything the status API of instance s returns (payload builders called directly so that the state
    gating of the API does not hide anything), as a canonical JSON string."""
    import json as _json
    rpc = s.rpc
    ctx = s.context
    snap = {
        'state': rpc.get_supvisors_state(),
        'master': rpc.get_master_identifier(),
        'state_modes': rpc.get_all_instances_state_modes(),
        'instances': rpc.get_all_instances_info(),
        'processes': sorted((p.serial() for a in ctx.applications.values() for p in a.processes.values()),
                            key=lambda x: (x['application_name'], x['process_name'])),
        'applications': sorted((a.serial() for a in ctx.applications.values()), key=lambda x: x['application_name']),
        'conflicts': [p.serial() for p in ctx.conflicts()],
        'application_rules': {n: a.rules.serial() for n, a in sorted(ctx.applications.items())},
        'process_rules': {p.namespec: p.rules.serial() for a in ctx.applications.values() for p in a.processes.values()},
    }
    for d in snap['processes']:
        d['identifiers'] = sorted(d['identifiers'])
    if inner:
        snap['inner'] = {ident: sorted((dict(proc.info_map[ident]) for proc in st.processes.values()
                                        if ident in proc.info_map), key=lambda x: (x['group'], x['name']))
                         for ident, st in ctx.instances.items()}
    return _json.dumps(_scrub(snap), sort_keys=True, default=str)


# ---------------------------------------------------------------------------------------------
# C13: isolation is permanent, reciprocal and airtight (step monitor)
# ---------------------------------------------------------------------------------------------
class IsolationMonitor:
    """(a) permanence: once o holds p ISOLATED, o's status of p never changes again (until o restarts);
    (b) airtightness: o sends nothing to p afterwards (no XML-RPC leaves o for p);
    (c) reciprocity: o never admits (CHECKED) a peer p that has held o ISOLATED since before the beginning of
        o's current CHECKING period: every handshake of that period is answered NOT_AUTHORIZED;
    (d) a peer whose strategies differ is never admitted."""

    def __init__(self, n, mismatch=()):
        self.isolated_at = {}     # (o, p) -> step at which o marked p ISOLATED
        self.checking_at = {}     # (o, p) -> step at which o's current CHECKING period of p began
        self.mismatch = {tuple(sorted(x)) for x in mismatch}   # pairs whose options differ

    def key(self, c):
        # only the order of the recorded steps matters
        items = sorted(self.isolated_at.items(), key=lambda kv: kv[1]) + [('|', 0)] + \
            sorted(self.checking_at.items(), key=lambda kv: kv[1])
        order = sorted({v for _, v in list(self.isolated_at.items()) + list(self.checking_at.items())})
        rank = {v: k for k, v in enumerate(order)}
        return ('iso', tuple(sorted((k, rank[v]) for k, v in self.isolated_at.items())),
                tuple(sorted((k, rank[v]) for k, v in self.checking_at.items())))

    def on_restart(self, idx):
        for d in (self.isolated_at, self.checking_at):
            for k in [k for k in d if k[0] == idx]:
                del d[k]

    def on_instance_state(self, w, o, peer_ident, old, new):
        p = w.idx_of[peer_ident]
        if (o, p) in self.isolated_at and new != 'ISOLATED':
            w.violations.append({'clause': 'isolation-not-permanent', 'signature': f'C13:left-ISOLATED:{new}',
                                 'observer': o, 'peer': p})
        if new == 'ISOLATED':
            self.isolated_at.setdefault((o, p), w.step)
        if new == 'CHECKING':
            self.checking_at[(o, p)] = w.step
        if new == 'CHECKED' and o != p:
            since = self.isolated_at.get((p, o))
            began = self.checking_at.get((o, p))
            if since is not None and began is not None and since < began and w.sups[p].alive:
                w.violations.append({'clause': 'peer-admitted-although-it-isolated-us',
                                     'signature': 'C13:admitted-despite-isolation', 'observer': o, 'peer': p,
                                     'isolated_at_step': since, 'checking_since_step': began, 'step': w.step})
            if tuple(sorted((o, p))) in self.mismatch:
                w.violations.append({'clause': 'peer-with-different-strategies-admitted',
                                     'signature': 'C13:admitted-despite-mismatch', 'observer': o, 'peer': p})

    def on_rpc(self, w, rec):
        o, p = rec['src'], rec['dst']
        if rec['cause'] and rec['cause'][0] == 'wire':
            return      # a request that was already on the wire when the peer was isolated
        if o != p and (o, p) in self.isolated_at and self.isolated_at[(o, p)] < w.step:
            w.violations.append({'clause': 'traffic-towards-isolated-peer', 'signature': f'C13:traffic-to-isolated:{rec["name"]}',
                                 'observer': o, 'peer': p})
