"""World: N real Supvisors cores in one process, every source of nondeterminism owned by the caller.

Real (unmodified, imported from /repo): options, mapper, state-modes, context, instance / process /
application status, parser, starter, stopper, starter model, failure handler, listener, FSM,
RpcHandler + SupervisorProxyServer + SupervisorProxy logic, RPCInterface, SupervisorData.

Controlled (this file): proxy threads and their queues (-> world.channels), XML-RPC transport
(-> World.rpc executing the target's real RPCInterface), supervisord and its child processes
(-> FakeSupervisord), clocks (-> VirtualClock), host network discovery.

Nothing here uses Mock objects so that a World can be snapshotted with pickle.
"""
import collections
import hashlib
import json
import os
import pickle
import socket
import tempfile
import time
import uuid
import xmlrpc.client
import zlib
from types import SimpleNamespace as NS

REAL_PERF = time.perf_counter

from supervisor import events as sup_events
from supervisor.rpcinterface import SupervisorNamespaceRPCInterface
from supervisor.states import ProcessStates, SupervisorStates, getProcessStateDescription, RUNNING_STATES
from supervisor.xmlrpc import RPCError, Faults

import supvisors.internal_com.mapper as mapper_mod
from supvisors.commander import Starter, Stopper, StarterModel
from supvisors.context import Context
from supvisors.instancestatus import SupvisorsInstanceStatus
from supvisors.internal_com import supervisorproxy as sp
from supvisors.internal_com.mapper import SupvisorsMapper
from supvisors.internal_com.rpchandler import RpcHandler
from supvisors.listener import SupervisorListener
from supvisors.options import SupvisorsOptions
from supvisors.rpcinterface import RPCInterface
from supvisors.sparser import Parser
from supvisors.statemachine import FiniteStateMachine
from supvisors.statemodes import SupvisorsStateModes
from supvisors.statscompiler import HostStatisticsCompiler, ProcStatisticsCompiler
from supvisors.strategy import RunningFailureHandler
from supvisors.supervisordata import SupervisorData
from supvisors.ttypes import (SUPVISORS_PUBLICATION, SUPVISORS_NOTIFICATION, RequestHeaders,
                              SupvisorsInstanceStates, SupvisorsStates)

PS = ProcessStates
TICK = 5.0
EPS = 1e-6
T0 = 1000.0

# ---------------------------------------------------------------------------------------------
# virtual clock: owned by the active World
# ---------------------------------------------------------------------------------------------
ACTIVE = None
_FALLBACK = [T0]


def _mono():
    w = ACTIVE
    if w is None:
        _FALLBACK[0] += EPS
        return _FALLBACK[0]
    w.clock_t += EPS
    return w.clock_t


def _wall():
    return _mono() + 1.7e9


time.monotonic = _mono
time.time = _wall


def activate(world):
    global ACTIVE
    ACTIVE = world


# ---------------------------------------------------------------------------------------------
# iteration order of sets of status objects
# ---------------------------------------------------------------------------------------------
# ProcessStatus / ApplicationStatus inherit object.__hash__ (the memory address): the iteration order of
# lost_processes, failed_processes and of the job sets of the RunningFailureHandler would change from one
# restored snapshot to the next.  The harness owns it: the hash is the rank of the name (ascending, or
# descending when the scenario says set_order='rev'), equality stays identity.
_SET_ORDER = {'rev': False, 'names': {}}


def _rank_hash(name):
    rank = _SET_ORDER['names'].get(name)
    if rank is None:
        rank = 32 + zlib.crc32(name.encode()) % 32      # names created at run time (numprocs changes)
    return (63 - rank) if _SET_ORDER['rev'] else rank


def _install_set_order():
    from supvisors.process import ProcessStatus
    from supvisors.application import ApplicationStatus
    ProcessStatus.__hash__ = lambda self: _rank_hash(self.namespec)
    ApplicationStatus.__hash__ = lambda self: _rank_hash(self.application_name)


def _set_order(scenario):
    names = set()
    for g in scenario['groups']:
        for gname, procs in g.items():
            names.add(gname)
            for pname in (procs if not isinstance(procs, dict) else procs.keys()):
                names.add(f'{gname}:{pname}' if isinstance(pname, str) else str(pname))
    _SET_ORDER['rev'] = scenario.get('set_order') == 'rev'
    _SET_ORDER['names'] = {name: k for k, name in enumerate(sorted(names))}


_install_set_order()


# ---------------------------------------------------------------------------------------------
# host network discovery answered from the scenario
# ---------------------------------------------------------------------------------------------
_NET = {'node': 0}


def node_ip(node):
    return f'10.0.0.{node + 1}'


def _host_index(x):
    """Accept '10.0.0.k', 'supv0k', 'supv0k.bzh'."""
    if x.startswith('10.0.0.'):
        return int(x.split('.')[-1])
    if x.startswith('supv0'):
        return int(x[5:].split('.')[0])
    raise socket.gaierror(f'unknown host {x}')


def _gethostbyaddr(x):
    k = _host_index(x)
    return f'supv0{k}.bzh', [f'supv0{k}'], [f'10.0.0.{k}']


def _getfqdn(name=''):
    if not name:
        return f'supv0{_NET["node"] + 1}.bzh'
    try:
        return f'supv0{_host_index(name)}.bzh'
    except (socket.gaierror, ValueError):
        return name


socket.gethostbyaddr = _gethostbyaddr
socket.gethostname = lambda: f'supv0{_NET["node"] + 1}.bzh'
socket.getfqdn = _getfqdn
socket.if_nameindex = lambda: [(1, 'lo'), (2, 'eth0')]
uuid.getnode = lambda: 1250999896491 + _NET['node']
mapper_mod.get_interface_info = lambda nic: {'lo': ('127.0.0.1', '255.0.0.0'),
                                             'eth0': (node_ip(_NET['node']), '255.255.255.0')}.get(nic)


# ---------------------------------------------------------------------------------------------
# recorders: the two public state values that change several times inside one atomic step
# ---------------------------------------------------------------------------------------------
_orig_inst_state = SupvisorsInstanceStatus.state
_orig_fsm_state = SupvisorsStateModes.state


def _inst_state_set(self, new_state):
    old = self._state
    _orig_inst_state.fset(self, new_state)
    if self._state != old:
        w = getattr(self.supvisors, 'world', None)
        if w is not None:
            w.note_instance_state(self.supvisors.idx, self.identifier, old.name, self._state.name)


def _fsm_state_set(self, fsm_state):
    old = self.local_state_modes.state
    _orig_fsm_state.fset(self, fsm_state)
    new = self.local_state_modes.state
    if new != old:
        w = getattr(self.supvisors, 'world', None)
        if w is not None:
            w.note_fsm_state(self.supvisors.idx, old.name, new.name)


SupvisorsInstanceStatus.state = property(_orig_inst_state.fget, _inst_state_set)
SupvisorsStateModes.state = property(_orig_fsm_state.fget, _fsm_state_set)


# ---------------------------------------------------------------------------------------------
# logger
# ---------------------------------------------------------------------------------------------
class Log:
    """Keeps CRIT records (and counts ERRO) of the current step only; the explorer drains them."""
    level = 40  # ERRO: debug/trace f-strings are still evaluated by the code, which is what we want
    handlers = []
    SUPVISORS = None

    def __init__(self, name):
        self.name = name
        self.crit = []
        self.errors = 0

    def critical(self, msg): self.crit.append(msg)
    def error(self, msg): self.errors += 1
    def warn(self, msg): pass
    def info(self, msg): pass
    def debug(self, msg): pass
    def trace(self, msg): pass
    def blather(self, msg): pass

    def log(self, lvl, msg):
        if lvl >= 50:
            self.crit.append(msg)

    def close(self): pass


class NullLog(Log):
    def critical(self, msg): pass
    def error(self, msg): pass


# ---------------------------------------------------------------------------------------------
# rules files and shared (read-only) parsers
# ---------------------------------------------------------------------------------------------
_TMP = None
_PARSERS = {}
_RULES_PATHS = {}


def rules_path(xml_text):
    """Write the rules text once per process to a scratch file and return its path."""
    global _TMP
    key = hashlib.sha1(xml_text.encode()).hexdigest()[:16]
    if key not in _RULES_PATHS:
        if _TMP is None:
            _TMP = tempfile.mkdtemp(prefix='verif-rules-')
            import atexit, shutil
            atexit.register(shutil.rmtree, _TMP, True)
        path = os.path.join(_TMP, f'rules-{key}.xml')
        with open(path, 'w') as f:
            f.write(xml_text)
        _RULES_PATHS[key] = path
    return key, _RULES_PATHS[key]


def shared_parser(key):
    """The Parser only reads supvisors.logger and options.rules_files at construction and is read-only
    afterwards, so one instance per rules text is shared by all worlds of the process (never pickled)."""
    if key not in _PARSERS:
        stub = NS(logger=NullLog('parser'), options=NS(rules_files=[_RULES_PATHS[key]]))
        _PARSERS[key] = Parser(stub)
    return _PARSERS[key]


# ---------------------------------------------------------------------------------------------
# fake supervisord
# ---------------------------------------------------------------------------------------------
class FakeProcConfig:
    def __init__(self, name, startsecs=1, stopwaitsecs=1, autorestart=False):
        self.name = name
        self.command = 'cmd'
        self.autorestart = autorestart
        self.startsecs = startsecs
        self.stopwaitsecs = stopwaitsecs
        self.stdout_logfile = None
        self.stderr_logfile = None


class FakeProc:
    def __init__(self, group, name, startsecs=1, stopwaitsecs=1, disabled=False, program=None, index=0):
        self.group = group
        self.config = FakeProcConfig(name, startsecs, stopwaitsecs)
        self.state = PS.STOPPED
        self.pid = 0
        self.spawnerr = ''
        self.laststart = 0
        self.laststop = 0
        self.laststart_monotonic = 0.0
        self.laststop_monotonic = 0.0
        self.extra_args = ''
        self.obsolete = False
        self.backoff = 0
        self.exitstatus = 0
        prog = NS(name=program or name, disabled=disabled)
        self.supvisors_config = NS(program_config=prog, process_index=index, command_ref='cmd')
        # ground truth bookkeeping (never read by the code under test)
        self.gt_started_round = None


class FakeGroup:
    def __init__(self, name, procs):
        self.config = NS(name=name, process_configs=[])
        self.processes = {}
        for pname, opts in procs.items():
            self.processes[pname] = FakeProc(self, pname, **(opts or {}))


EVT = {PS.STARTING: sup_events.ProcessStateStartingEvent, PS.RUNNING: sup_events.ProcessStateRunningEvent,
       PS.BACKOFF: sup_events.ProcessStateBackoffEvent, PS.STOPPING: sup_events.ProcessStateStoppingEvent,
       PS.EXITED: sup_events.ProcessStateExitedEvent, PS.STOPPED: sup_events.ProcessStateStoppedEvent,
       PS.FATAL: sup_events.ProcessStateFatalEvent}


class FakeSupervisorRpc:
    """The 'supervisor' XML-RPC namespace of one fake supervisord."""

    def __init__(self, sup):
        self.sup = sup  # the Sup container

    def _update(self):
        if self.sup.supervisord.options.mood < SupervisorStates.RUNNING:
            raise RPCError(Faults.SHUTDOWN_STATE)

    def _proc(self, namespec):
        try:
            g, p = namespec.split(':')
            return self.sup.supervisord.process_groups[g].processes[p]
        except (KeyError, ValueError):
            raise RPCError(Faults.BAD_NAME, namespec)

    def _info(self, proc):
        now = int(time.time())
        info = {'name': proc.config.name, 'group': proc.group.config.name,
                'start': int(proc.laststart), 'stop': int(proc.laststop), 'now': now,
                'state': int(proc.state), 'statename': getProcessStateDescription(proc.state),
                'spawnerr': proc.spawnerr or '', 'exitstatus': proc.exitstatus or 0,
                'logfile': '', 'stdout_logfile': '', 'stderr_logfile': '', 'pid': proc.pid}
        info['description'] = SupervisorNamespaceRPCInterface._interpretProcessInfo(None, info)
        return info

    def getAllProcessInfo(self):
        self._update()
        return [self._info(p) for g in self.sup.supervisord.process_groups.values() for p in g.processes.values()]

    def getProcessInfo(self, namespec):
        self._update()
        return self._info(self._proc(namespec))

    def startProcess(self, namespec, wait=True):
        self._update()
        proc = self._proc(namespec)
        if proc.state in RUNNING_STATES:
            raise RPCError(Faults.ALREADY_STARTED, namespec)
        if proc.state == PS.UNKNOWN:
            raise RPCError(Faults.FAILED, namespec)
        if proc.state == PS.STOPPING:
            return True  # spawn() refuses (pid set), nothing happens
        if proc.supvisors_config.program_config.disabled or proc.obsolete:
            # Supvisors' spawn override returns None: nothing happens
            return True
        behaviour = self.sup.world.start_behaviour.get((self.sup.idx, namespec))
        if behaviour == 'mute':
            # the request is accepted but the child never reports anything (events lost)
            return True
        self.sup.proc_change(proc, PS.STARTING)
        return True

    def stopProcess(self, namespec, wait=True):
        self._update()
        proc = self._proc(namespec)
        if proc.state not in RUNNING_STATES:
            raise RPCError(Faults.NOT_RUNNING, namespec)
        if proc.state == PS.BACKOFF:
            self.sup.proc_change(proc, PS.STOPPED)
            return True
        behaviour = self.sup.world.stop_behaviour.get((self.sup.idx, namespec))
        if behaviour == 'mute':
            return True
        self.sup.proc_change(proc, PS.STOPPING)
        return True

    def restart(self):
        self._update()
        self.sup.supervisord.options.mood = SupervisorStates.RESTARTING
        self.sup.end_orders.append('restart')
        return True

    def shutdown(self):
        self._update()
        self.sup.supervisord.options.mood = SupervisorStates.SHUTDOWN
        self.sup.end_orders.append('shutdown')
        return True

    def sendRemoteCommEvent(self, etype, data):
        self._update()
        self.sup.listener.on_remote_event(sup_events.RemoteCommunicationEvent(etype, data))
        return True


class FakeSupervisord:
    def __init__(self, sup, host, port, groups, identifier):
        cfg = {'section': 'inet_http_server', 'family': socket.AF_INET, 'host': host, 'port': port,
               'username': None, 'password': None}
        self.process_groups = {g: FakeGroup(g, procs) for g, procs in groups.items()}
        rpcintf = NS(supervisor=FakeSupervisorRpc(sup), supvisors=None, system=None)
        handler = NS(rpcinterface=rpcintf)
        httpserver = NS(handlers=[handler])
        self.options = NS(server_configs=[cfg], httpservers=[(cfg, httpserver)], identifier=identifier,
                          here='.', environ_expansions={}, configfile='x.conf', mood=SupervisorStates.RUNNING)


# ---------------------------------------------------------------------------------------------
# controlled proxy / transport
# ---------------------------------------------------------------------------------------------
class _Namespace:
    def __init__(self, stub, ns):
        self.stub, self.ns = stub, ns

    def __getattr__(self, name):
        if name.startswith('__'):
            raise AttributeError(name)
        stub, ns = self.stub, self.ns
        return lambda *args: stub.world.rpc(stub.src, stub.dst, ns, name, args)


class _Abort(BaseException):
    """Stops the processing of a message by a proxy thread once its first XML-RPC is known (see World._lag)."""


class RemoteStub:
    def __init__(self, world, src, dst):
        self.world, self.src, self.dst = world, src, dst
        self.supvisors = _Namespace(self, 'supvisors')
        self.supervisor = _Namespace(self, 'supervisor')


class ControlledProxy(sp.SupervisorProxy):
    """Replaces SupervisorProxyThread: no OS thread, the queue is world.channels[(src, dst)]."""

    def __init__(self, status, supvisors):
        sp.SupervisorProxy.__init__(self, status, supvisors)
        self.world = supvisors.world
        self.src = supvisors.idx
        self.dst = supvisors.world.idx_of[status.identifier]

    def start(self):
        pass

    def stop(self):
        # the real thread leaves its loop, drops what is left in its queue and unregisters itself
        self.world.channels.pop((self.src, self.dst), None)
        self.world.hung.pop((self.src, self.dst), None)
        self.supvisors.rpc_handler.proxy_server.on_proxy_closing(self.status.identifier)

    def join(self):
        pass

    def push_message(self, message):
        self.world.push(self.src, self.dst, message)

    handle_exception = sp.SupervisorProxyThread.handle_exception
    process_event = sp.SupervisorProxyThread.process_event

    @property
    def proxy(self):
        # a fresh stub per use: nothing transport-related is ever stored (or pickled)
        return RemoteStub(self.world, self.src, self.dst)


class DummyLock:
    def __enter__(self): return self
    def __exit__(self, *a): return False


class DummyEvent:
    def __init__(self): self.flag = False
    def is_set(self): return self.flag
    def set(self): self.flag = True
    def clear(self): self.flag = False


_INT_MAX = 2 ** 31 - 1
_INT_MIN = -2 ** 31


def wire(v):
    """What an XML-RPC round trip does to a value: deep copy, tuples become lists; values that cannot be
    marshalled raise as xmlrpc.client.dumps would (None, non-string keys, big ints, foreign objects)."""
    t = type(v)
    if t is str or t is bool or t is float:
        return v
    if t is int:
        if v > _INT_MAX or v < _INT_MIN:
            raise OverflowError('int exceeds XML-RPC limits')
        return v
    if t is list or t is tuple:
        return [wire(x) for x in v]
    if t is dict:
        out = {}
        for k, x in v.items():
            if type(k) is not str:
                raise TypeError('dictionary key must be string')
            out[k] = wire(x)
        return out
    if v is None:
        raise TypeError('cannot marshal None unless allow_none is enabled')
    if isinstance(v, int):  # IntEnum-like (ProcessStates values are plain ints already)
        return int(v)
    raise TypeError(f'cannot marshal {t} objects')


class RecordingPublisher:
    """external_publisher stand-in: keeps the event-interface stream of the current step."""

    def __init__(self):
        self.events = []

    def _rec(self, kind, payload):
        self.events.append((kind, payload))

    def close(self): pass
    def send_supvisors_status(self, p): self._rec('supvisors', p)
    def send_instance_status(self, p): self._rec('instance', p)
    def send_application_status(self, p): self._rec('application', p)
    def send_process_event(self, p): self._rec('process_event', p)
    def send_process_status(self, p): self._rec('process', p)
    def send_host_statistics(self, p): pass
    def send_process_statistics(self, p): pass
    def send_state_event(self, p): self._rec('state', p)


class Updater:
    """supervisor_updater stand-in recording calls (numprocs / enable / disable are not modelled)."""

    def __init__(self):
        self.calls = []

    def __getattr__(self, name):
        if name.startswith('__'):
            raise AttributeError(name)
        calls = self.__dict__.setdefault('calls', [])
        return lambda *a, **k: calls.append(name)


# ---------------------------------------------------------------------------------------------
# one Supvisors instance
# ---------------------------------------------------------------------------------------------
class Sup:
    """Equivalent of supvisors.initializer.Supvisors with real cores and fake edges."""

    def __init__(self, world, idx):
        sc = world.scenario
        self.world = world
        self.idx = idx
        self.alive = True
        self.incarnation = 0
        self.end_orders = []
        node = sc['node_of'][idx]
        _NET['node'] = node
        self.node = node
        self.logger = Log(f'sup{idx}')
        nick = sc['nicks'][idx]
        self.supervisord = FakeSupervisord(self, node_ip(node), 25000 + idx, sc['groups'][idx], nick or 'supervisor')
        config = dict(sc['config'])
        config.update(sc.get('config_of', {}).get(idx, {}))
        config['supvisors_list'] = ','.join(world.items)
        if sc.get('core'):
            config['core_identifiers'] = ','.join(sc['core'])
        self.options = SupvisorsOptions(self.supervisord, self.logger, **config)
        self.rules_key = world.rules_key
        self.options.rules_files = [world.rules_file] if world.rules_file else None
        self.supervisor_data = SupervisorData(self, self.supervisord)
        self.supervisor_updater = Updater()
        self.server_options = NS(program_configs={}, process_configs={}, disabilities={})
        self.mapper = SupvisorsMapper(self)
        self.mapper.configure(self.options.supvisors_list, self.options.stereotypes,
                              list(self.options.core_identifiers))
        self.stats_collector = None
        self.host_compiler = HostStatisticsCompiler(self)
        self.process_compiler = ProcStatisticsCompiler(self.options, self.logger)
        self.state_modes = SupvisorsStateModes(self)
        self.context = Context(self)
        self.starter = Starter(self)
        self.stopper = Stopper(self)
        self.starter_model = StarterModel(self)
        self.failure_handler = RunningFailureHandler(self)
        self.discovery_handler = None
        self.external_publisher = RecordingPublisher() if sc.get('publisher') else None
        self.listener = SupervisorListener(self)
        sup_events.clear()  # the listener subscribed to process-global callbacks: never use notify()
        self.fsm = FiniteStateMachine(self)
        self.rpc_handler = RpcHandler(self)
        ps = self.rpc_handler.proxy_server
        ps.klass = ControlledProxy
        ps.mutex = DummyLock()
        ps.stop_event = DummyEvent()
        self.sessions = None
        self.rpc = RPCInterface(self)
        self.supervisord.options.httpservers[0][1].handlers[0].rpcinterface.supvisors = self.rpc

    # the parser is shared, read-only and never pickled
    @property
    def parser(self):
        return shared_parser(self.rules_key) if self.rules_key else None

    @parser.setter
    def parser(self, value):
        pass

    @property
    def ident(self):
        return self.mapper.local_identifier

    def procs(self):
        for g in self.supervisord.process_groups.values():
            for p in g.processes.values():
                yield f'{g.config.name}:{p.config.name}', p

    def proc(self, namespec):
        g, p = namespec.split(':')
        return self.supervisord.process_groups[g].processes[p]

    def proc_change(self, proc, new_state, expected=True):
        """Ground-truth process transition + the real Supervisor event handed to the real listener."""
        old = proc.state
        proc.state = new_state
        w = self.world
        if new_state == PS.STARTING:
            proc.laststart = int(time.time())
            # a pid that is a function of the process only: a global counter would be hidden state (not in the
            # canonical key, yet visible in every later payload) and made merged states diverge
            names = [ns for ns, _ in self.procs()]
            proc.pid = 1000 + 100 * self.idx + names.index(f'{proc.group.config.name}:{proc.config.name}')
            proc.spawnerr = ''
            proc.gt_started_round = w.round
        elif new_state == PS.BACKOFF:
            proc.laststop = int(time.time())
            proc.pid = 0
            proc.backoff += 1
            proc.spawnerr = 'Exited too quickly (process log may have details)'
        elif new_state in (PS.STOPPED, PS.EXITED):
            proc.laststop = int(time.time())
            proc.pid = 0
            if new_state == PS.EXITED and not expected:
                proc.spawnerr = 'Bad exit code 1'
                proc.exitstatus = 1
        elif new_state == PS.RUNNING:
            proc.backoff = 0
        elif new_state == PS.FATAL:
            proc.pid = 0
            proc.spawnerr = proc.spawnerr or 'Exited too quickly (process log may have details)'
        if new_state == PS.EXITED:
            ev = sup_events.ProcessStateExitedEvent(proc, old, expected)
        else:
            ev = EVT[new_state](proc, old)
        self.listener.on_process_state(ev)


# ---------------------------------------------------------------------------------------------
# the world
# ---------------------------------------------------------------------------------------------
DEFAULT_CONFIG = {'synchro_options': 'LIST,TIMEOUT', 'inactivity_ticks': '2', 'auto_fence': 'false',
                  'synchro_timeout': '15'}

# legal ground-truth process transitions offered as environment events
PROC_ACTIONS = {
    'run': (PS.STARTING, PS.RUNNING, True),
    'backoff': (PS.STARTING, PS.BACKOFF, True),
    'retry': (PS.BACKOFF, PS.STARTING, True),
    'giveup': (PS.BACKOFF, PS.FATAL, True),
    'exit_ok': (PS.RUNNING, PS.EXITED, True),
    'exit_bad': (PS.RUNNING, PS.EXITED, False),
    'stopped': (PS.STOPPING, PS.STOPPED, True),
}


def make_scenario(n, config=None, rules=None, groups=None, node_of=None, nicks=None, core=None,
                  config_of=None, publisher=False, set_order=None):
    """Normalise a scenario description (plain JSON-able dict)."""
    if groups is None:
        groups = {}
    if isinstance(groups, dict):
        groups = [groups] * n
    cfg = dict(DEFAULT_CONFIG)
    cfg.update(config or {})
    return {'n': n, 'config': cfg, 'rules': rules, 'groups': [g for g in groups],
            'node_of': list(node_of) if node_of else list(range(n)),
            'nicks': list(nicks) if nicks else [None] * n, 'core': list(core or []),
            'config_of': {int(k): v for k, v in (config_of or {}).items()}, 'publisher': publisher,
            'set_order': set_order}


class World:
    def __init__(self, scenario):
        self.scenario = sc = scenario
        self.n = n = sc['n']
        self.clock_t = T0
        activate(self)
        _set_order(sc)
        if sc.get('rules'):
            self.rules_key, self.rules_file = rules_path(sc['rules'])
        else:
            self.rules_key, self.rules_file = None, None
        self.items = []
        for i in range(n):
            item = f'{node_ip(sc["node_of"][i])}:{25000 + i}'
            if sc['nicks'][i]:
                item = f'<{sc["nicks"][i]}>{item}'
            self.items.append(item)
        self.idents = [f'{node_ip(sc["node_of"][i])}:{25000 + i}' for i in range(n)]
        self.idx_of = {ident: i for i, ident in enumerate(self.idents)}
        self.channels = {}
        self.cut = set()        # frozenset((i, j)): RPCs fail with a transport error
        self.stalled = set()    # (i, j): directed channel frozen, nobody is told
        self.hung = {}          # (i, j): the proxy thread of i for j waits for the reply of an XML-RPC (see _hang)
        self._rpc_mode = None   # transient: ('record', rec) | ('replay', rec) while a slow exchange is (re)played
        self.lagging = {}       # (i, j): an XML-RPC of i's proxy thread for j is on the wire, not yet served (see _lag)
        self.round = 0          # highest absolute tick index emitted so far
        self.abs_ticks = [0] * n  # absolute tick count per instance (keeps growing across restarts)
        self.pid_counter = 0
        self.step = 0
        self.cause = None       # set while a user RPC is being executed: ('user', idx, method)
        self.start_behaviour = {}   # (idx, namespec) -> 'mute'
        self.stop_behaviour = {}
        # step-local observations, drained by the caller
        self.transport = []     # XML-RPCs that crossed the wire
        self.emitted = []       # requests pushed by main threads
        self.inst_changes = []  # (observer idx, peer ident, old, new)
        self.fsm_changes = []   # (idx, old, new)
        self.violations = []    # appended by monitors
        self.faults = []        # harness-detected internal errors (exception escaping a thread)
        self.monitors = []
        self.budget = {}        # driver budgets (part of the state)
        self.sups = [None] * n
        for i in range(n):
            self.sups[i] = Sup(self, i)

    # -- bookkeeping -------------------------------------------------------------------------
    def sup_of(self, ident):
        return self.sups[self.idx_of[ident]]

    def note_instance_state(self, idx, peer, old, new):
        self.inst_changes.append((idx, peer, old, new))
        for m in self.monitors:
            f = getattr(m, 'on_instance_state', None)
            if f:
                f(self, idx, peer, old, new)

    def note_fsm_state(self, idx, old, new):
        self.fsm_changes.append((idx, old, new))
        for m in self.monitors:
            f = getattr(m, 'on_fsm_state', None)
            if f:
                f(self, idx, old, new)

    def push(self, src, dst, message):
        """A main thread pushes a message to one of its proxies."""
        mode = self._rpc_mode
        if mode is not None:
            kind_, rec_ = mode
            if kind_ == 'record':
                rec_['pushes'].append((len(rec_['answers']), src, dst, message))
                return
            if rec_['released'] > 0:
                rec_['released'] -= 1   # already delivered when the exchange began
                return
        self.channels.setdefault((src, dst), collections.deque()).append(message)
        kind, (_, body) = message[0], message[1]
        if kind == sp.InternalEventHeaders.PUBLICATION:
            for m in self.monitors:
                f = getattr(m, 'on_publish', None)
                if f:
                    f(self, src, dst, body)
        if kind == sp.InternalEventHeaders.REQUEST:
            rec = {'step': self.step, 'src': src, 'dst': dst, 'req': RequestHeaders(body[0]).name,
                   'args': body[1], 'cause': self.cause}
            self.emitted.append(rec)
            for m in self.monitors:
                f = getattr(m, 'on_emit', None)
                if f:
                    f(self, rec)

    # -- transport ---------------------------------------------------------------------------
    def rpc(self, src, dst, ns, name, args):
        mode = self._rpc_mode
        if mode is not None and mode[0] == 'capture':
            mode[1]['call'] = (ns, name, wire(list(args)))
            raise _Abort()
        if mode is not None and mode[0] == 'replay':
            rec_ = mode[1]
            kind_, val = rec_['answers'].pop(0)
            if not rec_['answers']:
                # the late reply has arrived: from now on the thread runs at the present time
                if self.clock_t < rec_['t2']:
                    self.clock_t = rec_['t2']
            if kind_ == 'exc':
                raise val
            return val
        if mode is not None:
            try:
                val = self._rpc(src, dst, ns, name, args)
            except Exception as exc:
                mode[1]['answers'].append(('exc', exc))
                raise
            mode[1]['answers'].append(('ok', val))
            return val
        return self._rpc(src, dst, ns, name, args)

    def _rpc(self, src, dst, ns, name, args):
        target = self.sups[dst]
        if not target.alive or (src != dst and frozenset((src, dst)) in self.cut):
            for m in self.monitors:
                f = getattr(m, 'on_rpc_fail', None)
                if f:
                    f(self, src, dst, name)
            raise ConnectionRefusedError('down')
        rec = {'step': self.step, 'src': src, 'dst': dst, 'ns': ns, 'name': name, 'args': args,
               'cause': self.cause}
        self.transport.append(rec)
        for m in self.monitors:
            f = getattr(m, 'on_rpc', None)
            if f:
                f(self, rec)
        try:
            args = wire(list(args))
        except (TypeError, OverflowError):
            raise  # client-side marshalling error: TypeError is caught by xml_rpc as 'data error'
        try:
            if ns == 'supvisors':
                fn = getattr(target.rpc, name, None)
                if fn is None or name.startswith('_'):
                    raise xmlrpc.client.Fault(Faults.UNKNOWN_METHOD, name)
                result = fn(*args)
            else:
                intf = target.supervisord.options.httpservers[0][1].handlers[0].rpcinterface.supervisor
                result = getattr(intf, name)(*args)
        except RPCError as exc:
            raise xmlrpc.client.Fault(exc.code, exc.text)
        except xmlrpc.client.Fault:
            raise
        except Exception as exc:
            # supervisord's XML-RPC handler answers 500 and logs the traceback
            import traceback
            self.faults.append({'kind': 'rpc-exception', 'idx': dst, 'method': f'{ns}.{name}',
                                'exc': type(exc).__name__, 'where': _innermost(exc), 'text': str(exc)[:200]})
            raise xmlrpc.client.ProtocolError('x', 500, 'Internal Server Error', {})
        if callable(result):
            result = True  # deferred result (wait=True): the caller would poll; not used internally
        try:
            return wire(result)
        except (TypeError, OverflowError) as exc:
            self.faults.append({'kind': 'unmarshallable-result', 'idx': dst, 'method': f'{ns}.{name}',
                                'exc': type(exc).__name__, 'where': f'{ns}.{name}', 'text': str(exc)[:200]})
            raise xmlrpc.client.ProtocolError('x', 500, 'Internal Server Error', {})

    # -- enabled events ----------------------------------------------------------------------
    def deliverable(self):
        """Channels whose head can be served now (sender alive, not stalled), in canonical order."""
        out = []
        for key in sorted(self.channels):
            q = self.channels[key]
            if q and self.sups[key[0]].alive and key not in self.stalled and key not in self.hung \
                    and key not in self.lagging:
                out.append(key)
        return out

    def live(self):
        return [i for i in range(self.n) if self.sups[i].alive]

    def proc_events(self, allowed=None):
        """Legal ground-truth process transitions: ('proc', idx, namespec, action)."""
        out = []
        for i in self.live():
            for namespec, p in self.sups[i].procs():
                for action, (frm, _to, _exp) in PROC_ACTIONS.items():
                    if p.state == frm and (allowed is None or action in allowed):
                        out.append(('proc', i, namespec, action))
        return out

    # -- applying one event (one atomic step) --------------------------------------------------
    def apply(self, ev):
        activate(self)
        self.step += 1
        kind = ev[0]
        try:
            if kind == 'deliver':
                self._deliver((ev[1], ev[2]))
            elif kind == 'tick':
                self._tick(ev[1])
            elif kind == 'proc':
                self._proc(ev[1], ev[2], ev[3])
            elif kind == 'crash':
                self._crash(ev[1])
            elif kind == 'restart':
                self._restart(ev[1])
            elif kind == 'halt':
                self._crash(ev[1])
            elif kind == 'isolate':
                for j in range(self.n):
                    if j != ev[1]:
                        self.cut.add(frozenset((ev[1], j)))
            elif kind == 'rejoin':
                for j in range(self.n):
                    self.cut.discard(frozenset((ev[1], j)))
            elif kind == 'cut':
                self.cut.add(frozenset((ev[1], ev[2])))
            elif kind == 'heal':
                self.cut.discard(frozenset((ev[1], ev[2])))
            elif kind == 'stall':
                self.stalled.add((ev[1], ev[2]))
            elif kind == 'resume':
                self.stalled.discard((ev[1], ev[2]))
            elif kind == 'hang':
                self._hang((ev[1], ev[2]))
            elif kind == 'unhang':
                self._unhang((ev[1], ev[2]))
            elif kind == 'lag':
                self._lag((ev[1], ev[2]))
            elif kind == 'land':
                self._land((ev[1], ev[2]))
            elif kind in ('udisable', 'uenable'):
                self._disability(ev[1], ev[2], kind == 'udisable')
            elif kind == 'ustart':
                self._user_supervisor(ev[1], 'startProcess', ev[2])
            elif kind == 'ustop':
                self._user_supervisor(ev[1], 'stopProcess', ev[2])
            elif kind == 'rpc':
                return self.user_rpc(ev[1], ev[2], ev[3] if len(ev) > 3 else ())
            elif kind == 'inject':
                self._inject(ev[1], ev[2], ev[3])
            elif kind == 'set':
                # scenario knob changed by the driver, e.g. ('set', 'start_behaviour', [idx, namespec], 'mute')
                getattr(self, ev[1])[tuple(ev[2])] = ev[3]
            else:
                raise ValueError(f'unknown event {ev!r}')
        finally:
            for m in self.monitors:
                f = getattr(m, 'after_step', None)
                if f:
                    f(self, ev)
        return None

    def _deliver(self, key):
        src, dst = key
        q = self.channels[key]
        msg = q.popleft()
        if not q:
            del self.channels[key]
        s = self.sups[src]
        proxy = s.rpc_handler.proxy_server.proxies.get(self.idents[dst])
        if proxy is None:
            return  # proxy closed meanwhile: the message dies with the thread
        try:
            proxy.process_event(msg)
        except Exception as exc:
            # an exception escaping process_event kills the real proxy thread
            self.faults.append({'kind': 'proxy-thread-died', 'idx': src, 'method': 'process_event',
                                'exc': type(exc).__name__, 'where': _innermost(exc), 'text': str(exc)[:200]})

    # -- slow exchanges ---------------------------------------------------------------------
    # The proxy thread of `src` for `dst` takes the message at the head of its queue and performs its XML-RPCs now,
    # but the reply of the LAST one is late: everything the thread does after that reply (and every time it reads
    # the clock from then on) happens at the time of the 'unhang' event; its queue is blocked meanwhile, while the
    # main threads go on.  Implemented by record / replay of the real proxy code: the first pass performs the
    # XML-RPCs on the remote instance (their effects and answers belong to the present time) and lets through
    # only what the thread pushes before the last reply; the second pass replays the recorded answers on a clock
    # set back to the beginning of the exchange, which jumps to the present when the last answer is consumed.
    def _hang(self, key):
        src, dst = key
        msg = self.channels[key][0]
        s = self.sups[src]
        proxy = s.rpc_handler.proxy_server.proxies.get(self.idents[dst])
        if proxy is None or key in self.hung:
            raise ValueError(f'illegal hang {key}')
        rec = {'answers': [], 'pushes': []}
        t1 = self.clock_t
        self._rpc_mode = ('record', rec)
        try:
            proxy.process_event(msg)
        except Exception:
            pass    # judged when the exchange completes
        finally:
            self._rpc_mode = None
        n = len(rec['answers'])
        released = 0
        for count, psrc, pdst, message in rec['pushes']:
            if count < n or n == 0:
                self.push(psrc, pdst, message)
                released += 1
        if n == 0:
            # nothing was sent (e.g. a publication filtered out): an ordinary delivery
            q = self.channels[key]
            q.popleft()
            if not q:
                del self.channels[key]
            return
        self.hung[key] = {'t1': t1, 'answers': rec['answers'], 'released': released}

    def _unhang(self, key):
        src, dst = key
        h = self.hung.pop(key)
        q = self.channels[key]
        msg = q.popleft()
        if not q:
            del self.channels[key]
        s = self.sups[src]
        proxy = s.rpc_handler.proxy_server.proxies.get(self.idents[dst])
        if proxy is None:
            return
        if not self.sups[dst].alive:
            # the peer died meanwhile: the pending reply becomes a connection reset
            h['answers'][-1] = ('exc', ConnectionResetError('peer died'))
        rec = {'answers': list(h['answers']), 'released': h['released'], 't2': self.clock_t}
        self.clock_t = h['t1']
        self._rpc_mode = ('replay', rec)
        try:
            proxy.process_event(msg)
        except Exception as exc:
            self.faults.append({'kind': 'proxy-thread-died', 'idx': src, 'method': 'process_event',
                                'exc': type(exc).__name__, 'where': _innermost(exc), 'text': str(exc)[:200]})
        finally:
            self._rpc_mode = None
            if self.clock_t < rec['t2']:
                self.clock_t = rec['t2']

    # A publication whose XML-RPC is on the wire: sent now, served by the remote instance at the time of the 'land'
    # event, even if the sender has given up on the peer meanwhile (its thread stopped: the request is already out).
    def _lag(self, key):
        src, dst = key
        msg = self.channels[key][0]
        s = self.sups[src]
        proxy = s.rpc_handler.proxy_server.proxies.get(self.idents[dst])
        if proxy is None or key in self.lagging or key in self.hung:
            raise ValueError(f'illegal lag {key}')
        rec = {'call': None}
        self._rpc_mode = ('capture', rec)
        try:
            proxy.process_event(msg)
        except _Abort:
            pass
        finally:
            self._rpc_mode = None
        if rec['call'] is None:
            # nothing was sent (a publication filtered out): an ordinary delivery
            q = self.channels[key]
            q.popleft()
            if not q:
                del self.channels[key]
            return
        self.lagging[key] = {'t1': self.clock_t, 'call': rec['call']}

    def _land(self, key):
        src, dst = key
        h = self.lagging.pop(key)
        ns, name, args = h['call']
        cause, self.cause = self.cause, ('wire', src)     # sent before, served now
        try:
            answer = ('ok', self._rpc(src, dst, ns, name, args))
        except Exception as exc:
            answer = ('exc', exc)
        finally:
            self.cause = cause
        s = self.sups[src]
        proxy = s.rpc_handler.proxy_server.proxies.get(self.idents[dst]) if s.alive else None
        q = self.channels.get(key)
        if proxy is None or not q:
            return      # the sender gave up meanwhile: nobody waits for the answer
        msg = q.popleft()
        if not q:
            del self.channels[key]
        rec = {'answers': [answer], 'released': 0, 't2': self.clock_t}
        self._rpc_mode = ('replay', rec)
        try:
            proxy.process_event(msg)
        except Exception as exc:
            self.faults.append({'kind': 'proxy-thread-died', 'idx': src, 'method': 'process_event',
                                'exc': type(exc).__name__, 'where': _innermost(exc), 'text': str(exc)[:200]})
        finally:
            self._rpc_mode = None

    def _reachable(self, key):
        """A slow exchange needs a live, connected peer (otherwise the XML-RPC fails at once)."""
        return self.sups[key[1]].alive and frozenset(key) not in self.cut

    def laggable(self, kinds=('TICK',)):
        """Channels whose head is a publication of one of the given kinds (a single XML-RPC)."""
        out = []
        for key in self.deliverable():
            kind, (_, body) = self.channels[key][0]
            if kind == sp.InternalEventHeaders.PUBLICATION and key[0] != key[1] and self._reachable(key):
                try:
                    if sp.PublicationHeaders(body[0]).name in kinds:
                        out.append(key)
                except ValueError:
                    pass
        return out

    def hangable(self, kinds=('CHECK_INSTANCE',)):
        """Channels whose head may be turned into a slow exchange: requests of the given kinds."""
        out = []
        for key in self.deliverable():
            kind, (_, body) = self.channels[key][0]
            if kind == sp.InternalEventHeaders.REQUEST and RequestHeaders(body[0]).name in kinds \
                    and key[0] != key[1] and self._reachable(key):
                out.append(key)
        return out

    def _tick(self, i):
        self.abs_ticks[i] += 1
        if self.abs_ticks[i] > self.round:
            self.round = self.abs_ticks[i]
        # ticks land in the middle of a 5 s slot: durations compared with thresholds that are multiples
        # of 5 s are then never within an epsilon of the threshold (see also _restart)
        t = T0 + TICK * self.abs_ticks[i] + 2.5
        if self.clock_t < t:
            self.clock_t = t
        s = self.sups[i]
        s.listener.on_tick(sup_events.Tick5Event(int(self.clock_t + 1.7e9), None))

    def _proc(self, i, namespec, action):
        s = self.sups[i]
        p = s.proc(namespec)
        frm, to, expected = PROC_ACTIONS[action]
        if p.state != frm:
            raise ValueError(f'illegal process transition {action} for {namespec} in state {p.state}')
        s.proc_change(p, to, expected)

    def _disability(self, i, namespec, disabled):
        """supvisors.disable / enable on instance i (what SupervisorData.disable_program does, with the Supervisor event
        handed to the real listener instead of the process-global notify)."""
        from supvisors.ttypes import ProcessDisabledEvent, ProcessEnabledEvent
        s = self.sups[i]
        p = s.proc(namespec)
        p.supvisors_config.program_config.disabled = disabled
        s.listener.on_process_disability((ProcessDisabledEvent if disabled else ProcessEnabledEvent)(p))

    def _user_supervisor(self, i, method, namespec):
        """A user talks to supervisord directly, bypassing Supvisors."""
        s = self.sups[i]
        intf = s.supervisord.options.httpservers[0][1].handlers[0].rpcinterface.supervisor
        try:
            getattr(intf, method)(namespec, False)
        except RPCError:
            pass

    def _crash(self, i):
        s = self.sups[i]
        s.alive = False
        for key in [k for k in self.channels if k[0] == i]:
            del self.channels[key]
        for key in [k for k in self.hung if k[0] == i]:
            del self.hung[key]
        for key in [k for k in self.lagging if k[0] == i]:
            del self.lagging[key]
        for _, p in s.procs():
            p.state = PS.STOPPED
            p.pid = 0

    def _restart(self, i):
        old = self.sups[i]
        assert not old.alive
        self.clock_t += 1.0   # the new start date is 1 s off the tick grid (thresholds stay unambiguous)
        new = Sup(self, i)
        new.incarnation = old.incarnation + 1
        self.sups[i] = new
        # a restarted supervisord resumes its 5 s ticks from the current world round
        self.abs_ticks[i] = self.round
        self.start(i)

    def start(self, i):
        """SupervisorRunningEvent: what listener.on_running does once the fork is done."""
        s = self.sups[i]
        s.listener.counter = 0
        s.fsm.next()

    def start_all(self):
        for i in range(self.n):
            self.start(i)

    def user_rpc(self, i, method, args=()):
        """A user XML-RPC on instance i. Returns ('ok', value) | ('fault', code) | ('exc', type name)."""
        s = self.sups[i]
        self.cause = ('user', i, method)
        try:
            fn = getattr(s.rpc, method)
            res = fn(*wire(list(args)))
            if callable(res):
                res = 'deferred'
            return ('ok', res)
        except RPCError as exc:
            return ('fault', exc.code)
        except Exception as exc:
            self.faults.append({'kind': 'rpc-exception', 'idx': i, 'method': f'supvisors.{method}',
                                'exc': type(exc).__name__, 'where': _innermost(exc), 'text': str(exc)[:200]})
            return ('exc', type(exc).__name__)
        finally:
            self.cause = None

    def _inject(self, i, etype, message):
        """Hostile driver: a forged RemoteCommunicationEvent handed to the listener of instance i."""
        s = self.sups[i]
        s.listener.on_remote_event(sup_events.RemoteCommunicationEvent(etype, json.dumps(message)))

    # -- canonical scheduler helpers -----------------------------------------------------------
    def drain(self, limit=20000):
        n = 0
        while True:
            ks = self.deliverable()
            if not ks:
                return n
            self.apply(('deliver',) + ks[0])
            n += 1
            if n > limit:
                raise RuntimeError('drain does not terminate')

    def round_robin(self, rounds, settle=None):
        """Fair closure: deliver everything FIFO, tick live instances round-robin."""
        # fairness: every slow exchange completes (requests on the wire land first, then the late replies arrive)
        for key in sorted(self.lagging):
            self.apply(('land',) + key)
        for key in sorted(self.hung):
            self.apply(('unhang',) + key)
        self.drain()
        # catch-up phase: an instance that is behind ticks first (equal tick rates, see tick_menu)
        while True:
            live = self.live()
            if not live:
                return
            hi = max(self.abs_ticks[i] for i in live)
            behind = [i for i in live if self.abs_ticks[i] < hi]
            if not behind:
                break
            i = min(behind, key=lambda k: (self.abs_ticks[k], k))
            if settle:
                settle(self)
            self.apply(('tick', i))
            self.drain()
        for _ in range(rounds):
            for i in self.live():
                if settle:
                    settle(self)
                self.apply(('tick', i))
                self.drain()
            if settle:
                settle(self)
                self.drain()

    # -- observation -------------------------------------------------------------------------
    def drain_observations(self):
        obs = {'transport': self.transport, 'emitted': self.emitted, 'inst': self.inst_changes,
               'fsm': self.fsm_changes, 'faults': self.faults,
               'crit': [(s.idx, m) for s in self.sups for m in s.logger.crit]}
        self.transport, self.emitted, self.inst_changes, self.fsm_changes, self.faults = [], [], [], [], []
        for s in self.sups:
            s.logger.crit = []
            s.logger.errors = 0
            if s.external_publisher:
                s.external_publisher.events = []
        return obs

    def summary(self):
        out = []
        for s in self.sups:
            if not s.alive:
                out.append((s.idx, 'DEAD'))
                continue
            out.append((s.idx, s.fsm.state.name, self.idx_of.get(s.state_modes.master_identifier, -1),
                        ''.join(v.state.name[0] if v.state.name != 'CHECKED' else 'K'
                                for v in s.context.instances.values())))
        return out

    def ground_truth(self):
        return {i: {ns: getProcessStateDescription(p.state) for ns, p in self.sups[i].procs()}
                for i in range(self.n) if self.sups[i].alive}


def _innermost(exc):
    """Innermost frame of the traceback that lies inside the supvisors package (signature of a defect)."""
    import traceback
    frames = traceback.extract_tb(exc.__traceback__)
    pick = None
    for fr in frames:
        if '/supvisors/' in fr.filename:
            pick = fr
    if pick is None and frames:
        pick = frames[-1]
    if pick is None:
        return '?'
    return f'{os.path.basename(pick.filename)}:{pick.name}'


# ---------------------------------------------------------------------------------------------
# snapshots
# ---------------------------------------------------------------------------------------------
def snapshot(world):
    return pickle.dumps(world, protocol=pickle.HIGHEST_PROTOCOL)


def restore(blob):
    # NOTE: sets of status objects are rebuilt with the order of the world built last in this process
    # (one configuration at a time per process)
    w = pickle.loads(blob)
    activate(w)
    return w
