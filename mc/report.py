"""Evidence files, replay files, known findings and the exit protocol shared by all checks."""
import hashlib
import json
import os
import sys
import time

ROOT = os.path.dirname(os.path.dirname(os.path.abspath(__file__)))
EVIDENCE_DIR = os.path.join(ROOT, 'evidence')
REPLAY_DIR = os.path.join(ROOT, 'replays')
FINDINGS_FILE = os.path.join(ROOT, 'known_findings.json')
SCHEMA = '/root/.vp/EVIDENCE.schema.json'

PERF = time.perf_counter


def tier():
    t = os.environ.get('VERIF_TIER', 'quick')
    return t if t in ('quick', 'thorough') else 'quick'


def seed():
    try:
        return int(os.environ.get('VERIF_SEED', '0'))
    except ValueError:
        return 0


def load_findings(prop):
    try:
        with open(FINDINGS_FILE) as f:
            data = json.load(f)
    except FileNotFoundError:
        return {}
    return {e['signature']: e for e in data.get('findings', [])
            if e.get('property') == prop and e.get('status') == 'open'}


def jsonable(o):
    if isinstance(o, dict):
        return {str(k): jsonable(v) for k, v in o.items()}
    if isinstance(o, (list, tuple, set, frozenset)):
        return [jsonable(x) for x in o]
    if isinstance(o, (str, int, float, bool)) or o is None:
        return o
    if isinstance(o, bytes):
        return o.hex()
    return repr(o)


def write_replay(prop, payload):
    os.makedirs(REPLAY_DIR, exist_ok=True)
    body = json.dumps(jsonable(payload), indent=1, sort_keys=True)
    h = hashlib.sha1(body.encode()).hexdigest()[:10]
    path = os.path.join(REPLAY_DIR, f'{prop}-{h}.json')
    with open(path, 'w') as f:
        f.write(body)
    return path


class Outcome:
    """Collects what a check run covered and found; prints the protocol lines and writes the evidence."""

    def __init__(self, prop, level):
        self.prop = prop
        self.level = level
        self.t0 = PERF()
        self.coverage = {}
        self.assumptions = []
        self.violations = []   # dict(signature, clause, replay payload...)
        self.known_hits = {}   # signature -> count
        self.findings = load_findings(prop)

    def report(self, violation, replay_payload):
        """violation: dict with at least 'signature' and 'clause'.  Returns True when it is a known finding."""
        sig = violation['signature']
        if sig in self.findings:
            self.known_hits[sig] = self.known_hits.get(sig, 0) + 1
            return True
        for v in self.violations:
            if v['signature'] == sig:
                v['count'] += 1
                return False
        payload = dict(replay_payload)
        payload.update({'property': self.prop, 'oracle': violation, 'signature': sig})
        path = write_replay(self.prop, payload)
        self.violations.append({'signature': sig, 'clause': violation.get('clause'), 'replay': path, 'count': 1,
                                'detail': violation})
        return False

    def finish(self, exhaustive=None):
        wall = PERF() - self.t0
        cov = dict(self.coverage)
        if exhaustive is not None:
            cov['exhaustive'] = bool(exhaustive)
        cov['known_findings_hit'] = {k: v for k, v in sorted(self.known_hits.items())}
        ev = {'property_id': self.prop, 'tier': tier(), 'seed': seed(), 'level': self.level,
              'coverage': jsonable(cov), 'assumptions': self.assumptions, 'wall_s': round(wall, 2),
              'violations': len(self.violations)}
        os.makedirs(EVIDENCE_DIR, exist_ok=True)
        path = os.path.join(EVIDENCE_DIR, f'{self.prop}.json')
        with open(path, 'w') as f:
            json.dump(ev, f, indent=1, sort_keys=True)
        self_validate(path)
        for sig, n in sorted(self.known_hits.items()):
            what = self.findings[sig].get('what', '')
            print(f'KNOWN-FINDING: property={self.prop} {sig} :: {what} (met {n}x)')
        for v in self.violations:
            print(f'VIOLATION property={self.prop} replay={v["replay"]}')
            print(f'  clause={v["clause"]} signature={v["signature"]} occurrences={v["count"]}')
        summary = {k: v for k, v in cov.items() if isinstance(v, (int, float, bool, str)) and k != 'rule'}
        print(f'{self.prop} {tier()} wall={wall:.1f}s violations={len(self.violations)} {summary}')
        sys.stdout.flush()
        return 1 if self.violations else 0


def self_validate(path):
    """Validate the evidence file against the schema when jsonschema is importable (tooling venv or /venv)."""
    try:
        import jsonschema
    except ImportError:
        return
    with open(SCHEMA) as f:
        schema = json.load(f)
    with open(path) as f:
        data = json.load(f)
    jsonschema.validate(data, schema)
