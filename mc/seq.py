"""E2: bounded-exhaustive operation-sequence exploration against a reference model.

BFS over (real object state, reference-model state) pairs: every sequence of operations of a small
alphabet up to a depth bound, the real component and the reference being compared after every step.
States are merged on a canonical key, so that the exploration reaches a fixpoint when the alphabet
cannot produce new product states (the result is then complete for the alphabet, not merely
depth-bounded).  Specs rebuild a state by replaying its history on fresh objects (live objects rarely
copy), which also makes every explored state a validated, replayable trace.
"""
import collections
import multiprocessing
import os
import traceback

from .report import PERF


class Spec:
    """Interface of an E2 specification."""
    name = 'spec'

    def new(self):
        """Fresh (real, reference) pair."""
        raise NotImplementedError

    def ops(self, cfg=None):
        raise NotImplementedError

    def enabled(self, st, op):
        return True

    def apply(self, st, op):
        """Apply op to both sides; return a list of violation dicts (empty when they agree)."""
        raise NotImplementedError

    def key(self, st):
        raise NotImplementedError

    def nontrivial(self, hist):
        """A history is non-trivial when at least two of its operations touch the same entity."""
        seen = set()
        for op in hist:
            k = op[1] if len(op) > 1 else op[0]
            if k in seen:
                return True
            seen.add(k)
        return False


class SeqResult:
    def __init__(self):
        self.states = 0
        self.transitions = 0
        self.nontrivial = 0
        self.max_depth = 0
        self.fixpoint = False
        self.capped = False
        self.violations = []   # (violation, history)
        self.samples = []
        self.wall = 0.0
        self.error = None
        self.outcomes = collections.Counter()


def checked_apply(spec, st, op):
    """spec.apply with an exception escaping the real code turned into a violation (never a harness crash)."""
    try:
        return spec.apply(st, op)
    except Exception as exc:
        return [{'clause': 'exception', 'signature': f'{spec.name}:exception:{type(exc).__name__}:{op[0]}',
                 'exc': repr(exc)[:300], 'trace': traceback.format_exc()[-600:]}]


def rebuild(spec, hist):
    st = spec.new()
    for op in hist:
        spec.apply(st, op)
    return st


def explore(spec, depth, max_states=None, max_seconds=None, first_ops=None, known=()):
    """first_ops: restrict the first operation to this subset (parallel split by first choice)."""
    res = SeqResult()
    t0 = PERF()
    st = spec.new()
    root = spec.key(st)
    seen = {root}
    frontier = collections.deque([()])
    ops = list(spec.ops())
    seen_sig = set()
    exhausted = True
    while frontier:
        if (max_states and len(seen) >= max_states) or (max_seconds and PERF() - t0 > max_seconds):
            res.capped = True
            exhausted = False
            break
        hist = frontier.popleft()
        if len(hist) >= depth:
            exhausted = False   # states at the depth bound are not expanded
            continue
        base = rebuild(spec, hist)
        for op in ops:
            if not hist and first_ops is not None and op not in first_ops:
                continue
            if not spec.enabled(base, op):
                continue
            st = rebuild(spec, hist)
            try:
                errs = spec.apply(st, op)
            except Exception as exc:
                errs = [{'clause': 'exception', 'signature': f'{spec.name}:exception:{type(exc).__name__}:{op[0]}',
                         'exc': repr(exc)[:300], 'trace': traceback.format_exc()[-600:]}]
                st = None
            res.transitions += 1
            if errs:
                for e in errs:
                    if e['signature'] not in seen_sig:
                        seen_sig.add(e['signature'])
                        res.violations.append((e, list(hist) + [op]))
                continue
            k = spec.key(st)
            if k not in seen:
                seen.add(k)
                h2 = hist + (op,)
                frontier.append(h2)
                if len(h2) > res.max_depth:
                    res.max_depth = len(h2)
                if spec.nontrivial(h2):
                    res.nontrivial += 1
                if len(res.samples) < 3 and len(h2) >= min(depth, 3):
                    res.samples.append([list(o) for o in h2])
    res.states = len(seen)
    res.fixpoint = exhausted and not frontier
    res.wall = PERF() - t0
    return res


_SPECS = []


def _work(job):
    i, depth, kw = job
    try:
        return i, explore(_SPECS[i], depth, **kw)
    except Exception:
        r = SeqResult()
        r.error = traceback.format_exc()
        return i, r


def run_specs(specs, depth_of, kwargs_of=lambda s: {}, workers=None):
    """Explore several specs (configurations) in parallel."""
    global _SPECS
    _SPECS = list(specs)
    jobs = [(i, depth_of(s), kwargs_of(s)) for i, s in enumerate(specs)]
    workers = workers or min(len(jobs), int(os.environ.get('VERIF_WORKERS', '16'))) or 1
    out = [None] * len(jobs)
    if workers <= 1:
        for j in jobs:
            i, r = _work(j)
            out[i] = r
    else:
        ctx = multiprocessing.get_context('fork')
        with ctx.Pool(workers) as pool:
            for i, r in pool.imap_unordered(_work, jobs, chunksize=1):
                out[i] = r
    return out
