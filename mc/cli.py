"""CLI of the verification machinery: ./check C07 [--tier quick|thorough] [--replay replays/C07-xxxx.json]"""
import importlib
import json
import os
import sys

ROOT = os.path.dirname(os.path.dirname(os.path.abspath(__file__)))
sys.path.insert(0, ROOT)


def main(argv):
    if not argv:
        print(__doc__)
        return 2
    prop = argv[0].upper()
    args = argv[1:]
    replay = None
    while args:
        a = args.pop(0)
        if a == '--tier':
            os.environ['VERIF_TIER'] = args.pop(0)
        elif a == '--replay':
            replay = args.pop(0)
        elif a == '--seed':
            os.environ['VERIF_SEED'] = args.pop(0)
        else:
            print(f'unknown argument {a}')
            return 2
    try:
        mod = importlib.import_module(f'mc.checks.{prop.lower()}')
    except ImportError as exc:
        print(f'HARNESS ERROR: cannot import check {prop}: {exc!r}')
        return 2
    if replay:
        with open(replay) as f:
            payload = json.load(f)
        return mod.replay(payload)
    try:
        return mod.main()
    except SystemExit:
        raise
    except Exception:
        import traceback
        print('HARNESS ERROR (not a violation):')
        traceback.print_exc()
        return 2


if __name__ == '__main__':
    sys.exit(main(sys.argv[1:]))
