"""Model-checking machinery for julien6387/supvisors (see /verif/DESIGN.md)."""
