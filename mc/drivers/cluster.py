"""Membership driver: N instances, ticks, instance faults, optional restart/shutdown/end_sync requests.

Serves C01, C02, C07, C08 and (as an event source) C16.  Which monitors judge is decided by `judge`;
monitors of the other properties that fire cut the branch without being reported (DESIGN.md section 6).
"""
from ..explorer import Driver, tick_menu
from ..rulesgen import rules_xml, groups_of
from ..monitors import (IsolationMonitor, FsmGraphMonitor, DetectionMonitor, MasterOnlyMonitor, internal_errors, groups,
                        master_of, instance_states)
from ..world import World, make_scenario

RULES_AUTO = '''<?xml version="1.0" encoding="UTF-8" standalone="no"?>
<root>
  <application name="app">
    <start_sequence>1</start_sequence>
    <starting_strategy>CONFIG</starting_strategy>
    <programs>
      <program name="a"><identifiers>*</identifiers><start_sequence>1</start_sequence>
        <required>true</required><expected_loading>10</expected_loading>
        <running_failure_strategy>RESTART_PROCESS</running_failure_strategy></program>
    </programs>
  </application>
</root>'''


class ElectionHistory:
    """Harness bookkeeping for the reference election rule: who was the agreed Master, which faults occurred."""

    def __init__(self):
        self.m0 = None
        self.faults = []
        self.spurious = False   # a live reachable peer was timed out (message delay): the rule is not judged

    def key(self, c):
        return ('eh', self.m0, tuple(self.faults), self.spurious)

    def on_instance_state(self, w, o, peer_ident, old, new):
        if new == 'FAILED':
            p = w.idx_of[peer_ident]
            if w.sups[p].alive and frozenset((o, p)) not in w.cut and not any(x[0] == 'restart' and x[1] == p
                                                                               for x in self.faults):
                self.spurious = True


class Cluster(Driver):
    """cfg keys: n, options (dict), nicks, core, T (ticks per instance), F (fault budget),
    faults (list of fault kinds), rules ('auto' or None), requests (list of user RPC names),
    K (closure rounds), drift."""

    name = 'cluster'

    def __init__(self, prop, judge, full=False):
        self.prop = prop
        self.judge = set(judge)
        self.full = full
        self.urgent_procs = True

    # -- construction ------------------------------------------------------------------------
    def build(self, cfg):
        n = cfg['n']
        groups_ = {'app': {'a': {}}} if cfg.get('rules') else {}
        rules_ = RULES_AUTO if cfg.get('rules') else None
        if cfg.get('apps'):
            # an explicit rules description replaces the canonical one
            rules_, groups_ = rules_xml(cfg['apps']), groups_of(cfg['apps'], cfg.get('extra_groups'))
        sc = make_scenario(n, config=cfg.get('options'), nicks=cfg.get('nicks'), core=cfg.get('core'),
                           rules=rules_, groups=groups_,
                           node_of=cfg.get('node_of'), set_order=cfg.get('set_order'), config_of=cfg.get('config_of'))
        w = World(sc)
        opts = sc['config']
        q = '[supvisors_failure_strategy=SHUTDOWN]' if opts.get('supvisors_failure_strategy') == 'SHUTDOWN' else ''
        w.monitors.append(FsmGraphMonitor(n, q))
        w.monitors.append(DetectionMonitor(n, int(opts['inactivity_ticks']), opts['auto_fence'] == 'true'))
        mo = MasterOnlyMonitor()
        w.monitors.append(mo)
        if 'C13' in self.judge:
            w.monitors.append(IsolationMonitor(n, cfg.get('mismatch', ())))
        w.budget['F'] = cfg.get('F', 0)
        w.budget['R'] = cfg.get('R', 1 if cfg.get('requests') else 0)
        if 'hang' in cfg.get('faults', ()):
            w.budget['H'] = cfg.get('H', 1)
        if 'lag' in cfg.get('faults', ()):
            w.budget['L'] = cfg.get('L', 1)
        late = cfg.get('late', [])
        for i in range(n):
            if i in late:
                w.sups[i].alive = False   # joins later through a 'restart' event
            else:
                w.start(i)
        for i in late:
            w.sups[i].alive = False
        if cfg.get('warm'):
            # start from a non-initial state: a canonical fair run brings the cluster to OPERATION first
            w.round_robin(cfg['warm'], settle=None if cfg.get('slow_start') else self.settle)
        if cfg.get('prejoin'):
            # the late instances have joined by a canonical fair run: what they reported is newer than what the
            # others reported at the cold start
            for i in late:
                w.apply(('restart', i))
            w.round_robin(cfg['prejoin'], settle=None if cfg.get('slow_start') else self.settle)
        w.budget['Tmax'] = w.round + cfg['T']
        # election history for the reference rule (C01 b): Master agreed before the disturbances, fault events
        hist = ElectionHistory()
        live = w.live()
        ms = {master_of(w.sups[i]) for i in live}
        if len(ms) == 1 and '' not in ms and all(s.fsm.state.name == 'OPERATION' for s in w.sups if s.alive):
            hist.m0 = w.idx_of[next(iter(ms))]
        w.monitors.append(hist)
        return w

    # -- environment menu --------------------------------------------------------------------
    def env_events(self, w, cfg):
        evs = tick_menu(w, w.budget['Tmax'], cfg.get('drift', 1))
        if not cfg.get('slow_start'):
            evs += w.proc_events(('run',))
        live = w.live()
        # a supervisord that received its restart/shutdown order ends (FINAL is transient)
        # (FINAL is "very transient": the halt comes before anything else in the environment menu, unless
        # the configuration asks for lingering instances)
        halts = [('halt', i) for i in live if w.sups[i].end_orders]
        if halts and cfg.get('halt', 'urgent') == 'urgent':
            return halts[:1]
        faults = cfg.get('faults', ())
        if w.budget['F'] > 0:
            if 'crash' in faults and len(live) > 1:
                evs += [('crash', i) for i in live if i in cfg.get('crashable', live)]
            if 'isolate' in faults and len(live) > 1:
                evs += [('isolate', i) for i in live if i in cfg.get('crashable', live)
                        and not any(i in c for c in w.cut)]
            if 'stall' in faults:
                evs += [('stall', i, j) for i in live for j in live if i != j and (i, j) not in w.stalled
                        and (i, j) in [tuple(x) for x in cfg.get('stallable', [(a, b) for a in live for b in live])]]
        if 'restart' in faults or cfg.get('late'):
            evs += [('restart', i) for i in range(w.n) if not w.sups[i].alive
                    and (w.sups[i].incarnation < cfg.get('lives', 1)) and max(w.abs_ticks) >= cfg.get('restart_after', 0)]
        if 'isolate' in faults:
            evs += [('rejoin', i) for i in range(w.n) if any(i in c for c in w.cut)
                    and all(frozenset((i, j)) in w.cut for j in range(w.n) if j != i)]
        if 'stall' in faults:
            evs += [('resume', i, j) for (i, j) in sorted(w.stalled)]
        if 'hang' in faults:
            if w.budget.get('H', 0) > 0:
                evs += [('hang',) + k for k in w.hangable() if list(k) in cfg.get('hangable', [list(k)])]
            evs += [('unhang',) + k for k in sorted(w.hung)]
        if 'lag' in faults:
            if w.budget.get('L', 0) > 0:
                evs += [('lag',) + k for k in w.laggable() if list(k) in cfg.get('laggable', [list(k)])]
            evs += [('land',) + k for k in sorted(w.lagging)]
        if w.budget['R'] > 0:
            for req in cfg.get('requests', ()):
                for i in live:
                    if req == 'end_sync':
                        evs.append(('rpc', i, 'end_sync', ('',)))
                        evs += [('rpc', i, 'end_sync', (w.idents[j],)) for j in live]
                    else:
                        evs.append(('rpc', i, req, ()))
        return evs

    def apply_budget(self, w, ev):
        pass

    # -- monitors ----------------------------------------------------------------------------
    def step_check(self, w, ev, obs, cfg):
        if ev[0] in ('crash', 'isolate', 'stall'):
            w.budget['F'] -= 1
        if ev[0] in ('crash', 'isolate', 'stall', 'restart', 'rejoin', 'resume', 'rpc', 'halt', 'hang', 'lag'):
            for m in w.monitors:
                if isinstance(m, ElectionHistory):
                    m.faults.append(tuple(ev[:2]))
        if ev[0] == 'rpc':
            w.budget['R'] -= 1
        if ev[0] == 'hang':
            w.budget['H'] -= 1
        if ev[0] == 'lag':
            w.budget['L'] -= 1
        if ev[0] == 'restart':
            for m in w.monitors:
                if isinstance(m, (FsmGraphMonitor, IsolationMonitor)):
                    m.on_restart(ev[1])
        viols = list(w.violations)
        w.violations = []
        out = []
        errs = internal_errors(obs)
        if 'C16' in self.judge:
            out += errs
        elif errs:
            # the branch is cut; a violation of the judged property observed in this very step is still reported
            # (the internal error is its cause, not a state the verdict is extrapolated from)
            own = [v for v in viols if v['signature'].split(':', 1)[0] in self.judge]
            return own + [dict(e, cut_only=True) for e in errs]
        for v in viols:
            prop = v['signature'].split(':', 1)[0]
            if prop in self.judge:
                out.append(v)
            else:
                out.append(dict(v, cut_only=True))
        return out

    def observe(self, w, cfg):
        return tuple((s[1], s[2]) if len(s) > 2 else (s[1],) for s in w.summary())

    # -- bounded liveness --------------------------------------------------------------------
    def can_synchronize(self, w, cfg):
        """Proviso of C01/C08: TIMEOUT selected, or the instances required by the options are alive."""
        opts = w.scenario['config']
        so = [x.strip() for x in opts['synchro_options'].split(',')]
        if 'TIMEOUT' in so:
            return True
        live = set(w.live())
        ok = False
        if 'LIST' in so or 'STRICT' in so:
            ok = ok or len(live) == w.n
        if 'CORE' in so and w.scenario['core']:
            core_idx = {i for i in range(w.n) if (w.scenario['nicks'][i] or w.idents[i]) in w.scenario['core']
                        or w.idents[i] in w.scenario['core']}
            ok = ok or core_idx <= live
        return ok

    def settle(self, w):
        for e in w.proc_events(('run', 'stopped')):
            w.apply(e)

    def closure_run(self, w, cfg, rounds):
        for key in list(w.stalled):
            w.stalled.discard(key)
        w.round_robin(rounds, settle=self.settle)
        obs = w.drain_observations()
        w.violations = []
        return obs

    def closure_check(self, w, cfg):
        if not ({'C01', 'C08'} & self.judge):
            return None
        gs = groups(w)
        if gs is None:
            return None
        opts = w.scenario['config']
        if opts.get('supvisors_failure_strategy') == 'SHUTDOWN':
            return None
        K = cfg.get('K', 12)
        from .. import world as W
        blob = W.snapshot(w)
        v = self._closure_once(w, cfg, K)
        if v is None:
            return None
        # a slow but converging run is never called a violation: retry with 3K rounds
        w2 = W.restore(blob)
        v2 = self._closure_once(w2, cfg, 3 * K)
        return v2

    def _closure_once(self, w, cfg, K):
        obs = self.closure_run(w, cfg, K)
        if internal_errors(obs):
            return None   # judged by C16
        gs = groups(w)
        if gs is None:
            return None
        ended = any(s.alive and s.fsm.state.name in ('RESTARTING', 'SHUTTING_DOWN', 'FINAL') for s in w.sups)
        if ended:
            return None   # restart/shutdown requested: judged by C09
        for g in gs:
            members = [w.sups[i] for i in g]
            if not self._group_can_sync(w, cfg, g):
                continue
            masters = {i: master_of(s) for i, s in zip(g, members)}
            states = {i: s.fsm.state.name for i, s in zip(g, members)}
            if 'C01' in self.judge:
                vals = set(masters.values())
                if len(vals) != 1 or '' in vals:
                    return {'clause': 'no-agreement-on-master', 'signature': 'C01:no-agreement',
                            'group': g, 'masters': {str(k): v for k, v in masters.items()}, 'states': states}
                m = next(iter(vals))
                mi = w.idx_of[m]
                if mi not in g:
                    return {'clause': 'master-outside-group', 'signature': 'C01:master-outside-group',
                            'group': g, 'master': mi, 'states': states}
                for i, s in zip(g, members):
                    if instance_states(s).get(m) != 'RUNNING':
                        return {'clause': 'master-not-seen-running', 'signature': 'C01:master-not-running',
                                'group': g, 'observer': i, 'master': mi, 'seen': instance_states(s).get(m)}
                if master_of(w.sups[mi]) != m:
                    return {'clause': 'master-does-not-regard-itself', 'signature': 'C01:master-self-view',
                            'group': g, 'master': mi}
                want = self.expected_master(w, cfg, g)
                if want is not None and mi not in want:
                    return {'clause': 'election-rule', 'signature': 'C01:election-rule', 'group': g,
                            'elected': mi, 'expected': sorted(want),
                            'history': [list(x) for x in self.history(w).faults], 'm0': self.history(w).m0}
            if 'C08' in self.judge:
                vals = set(masters.values())
                goal = {'OPERATION'}
                bad = {i: st for i, st in states.items() if st not in goal}
                if bad:
                    # signature: who is where (role=state), so that a known finding stays narrow
                    agreed = len(vals) == 1 and '' not in vals
                    roles = set()
                    for i, st in states.items():
                        role = 'master' if agreed and w.idents[i] in vals else ('slave' if agreed else 'undecided')
                        if role == 'master' or st not in goal:
                            roles.add(f'{role}={st}')
                    return {'clause': 'not-back-in-operation', 'signature': 'C08:parked:' + '+'.join(sorted(roles)),
                            'group': g, 'states': states, 'masters': {str(k): v for k, v in masters.items()}}
                for i, s in zip(g, members):
                    sm = s.rpc.get_supvisors_state()
                    if sm['starting_jobs'] or sm['stopping_jobs']:
                        return {'clause': 'jobs-pending', 'signature': 'C08:jobs-pending', 'group': g,
                                'observer': i, 'starting': sm['starting_jobs'], 'stopping': sm['stopping_jobs']}
        return None

    @staticmethod
    def history(w):
        return next(m for m in w.monitors if isinstance(m, ElectionHistory))

    @staticmethod
    def rule(w, members):
        """Documented rule: a core_identifiers member if any, else the lowest nick identifier."""
        sc = w.scenario
        nick = lambda i: sc['nicks'][i] or w.idents[i]
        core = [i for i in members if nick(i) in sc['core'] or w.idents[i] in sc['core']]
        pool = core or list(members)
        return min(pool, key=nick)

    def expected_master(self, w, cfg, g):
        """Set of acceptable Masters for group g per the reference election rule, or None (not judged).
        Only single-fault histories from an agreed situation have an unambiguous answer."""
        h = self.history(w)
        if h.m0 is None or h.spurious:
            return None
        m0, f = h.m0, h.faults
        kinds = [x[0] for x in f]
        if set(g) != set(w.live()):
            # the cluster is split for good (partition still in force, or fencing): each side on its own
            if kinds and kinds[0] != 'isolate':
                return None
            return {m0} if m0 in g else {self.rule(w, g)}
        if not f:
            return {m0}
        if kinds == ['crash']:
            j = f[0][1]
            return {m0} if j != m0 else {self.rule(w, g)}
        if kinds == ['crash', 'restart'] and f[0][1] == f[1][1]:
            j = f[0][1]
            if j != m0:
                return {m0}
            others = [i for i in g if i != j]
            return {m0, self.rule(w, others)} if others else {m0}
        if kinds == ['restart']:     # late join: the running Master is kept
            return {m0}
        if kinds == ['isolate']:
            j = f[0][1]
            if g == [j]:
                return {j}
            return {m0} if j != m0 else {self.rule(w, g)}
        if kinds == ['isolate', 'rejoin'] and f[0][1] == f[1][1]:
            j = f[0][1]
            others = [i for i in g if i != j]
            a = m0 if j != m0 else (self.rule(w, others) if others else j)
            return {m0, self.rule(w, {a, j})}
        return None

    def _group_can_sync(self, w, cfg, g):
        opts = w.scenario['config']
        so = [x.strip() for x in opts['synchro_options'].split(',')]
        if 'TIMEOUT' in so:
            return True
        live = set(g)
        ok = False
        if 'LIST' in so or 'STRICT' in so:
            ok = ok or len(live) == w.n
        if 'CORE' in so and w.scenario['core']:
            core_idx = {i for i in range(w.n) if (w.scenario['nicks'][i] or w.idents[i]) in w.scenario['core']
                        or w.idents[i] in w.scenario['core']}
            ok = ok or (core_idx and core_idx <= live)
        if 'USER' in so:
            ok = False
        return ok
