"""Jobs driver: a cluster with a rules file and Supervisor process tables; start / stop / restart requests,
automatic distribution, process behaviours, instance losses.  Serves C03, C04, C09, C10, C19 (and C05/C06/C12
through dedicated subclasses).
"""
import json

from supervisor.states import ProcessStates as PS

from .. import world as W
from ..explorer import Driver, tick_menu
from ..monitors import (FsmGraphMonitor, DetectionMonitor, internal_errors, master_of, instance_states,
                        process_view)
from ..rulesgen import rules_xml, groups_of
from ..world import World, make_scenario

RUNNING_LIKE = (PS.STARTING, PS.RUNNING, PS.BACKOFF)
STOPPED_LIKE = (PS.STOPPED, PS.EXITED, PS.FATAL, PS.UNKNOWN)


class RulesView:
    """What the rules description says, resolved the boring way (named applications and programs only)."""

    def __init__(self, apps, idents, nicks, aliases=None):
        self.xml_aliases = {k: [x.strip() for x in v.split(',') if x.strip()] for k, v in (aliases or {}).items()}
        self.apps = {}
        self.procs = {}
        self.idents = list(idents)
        self.alias = {}
        for i, ident in enumerate(idents):
            self.alias[ident] = ident
            if nicks[i]:
                self.alias[nicks[i]] = ident
        for a in apps:
            name = a['name']
            aseq = a.get('start_sequence', 0)
            self.apps[name] = {'start_sequence': aseq, 'stop_sequence': a.get('stop_sequence', aseq),
                               'distribution': a.get('distribution', 'ALL_INSTANCES'),
                               'identifiers': a.get('identifiers', '*'),
                               'starting_failure_strategy': a.get('starting_failure_strategy', 'ABORT'),
                               'running_failure_strategy': a.get('running_failure_strategy', 'CONTINUE'),
                               'managed': True, 'procs': []}
            for p in a.get('programs') or []:
                ns = f'{name}:{p["name"]}'
                sseq = p.get('start_sequence', 0)
                req = bool(p.get('required', False)) and sseq > 0
                self.procs[ns] = {'app': name, 'start_sequence': sseq, 'stop_sequence': p.get('stop_sequence', sseq),
                                  'required': req, 'wait_exit': bool(p.get('wait_exit', False)),
                                  'load': p.get('expected_loading', 0), 'identifiers': p.get('identifiers', '*'),
                                  'starting_failure_strategy': p.get('starting_failure_strategy',
                                                                     self.apps[name]['starting_failure_strategy']),
                                  'running_failure_strategy': p.get('running_failure_strategy',
                                                                    self.apps[name]['running_failure_strategy'])}
                self.apps[name]['procs'].append(ns)

    def permitted(self, ns):
        """Instances the applicable identifiers rule permits (program's rule, or the application's when its
        distribution is restricted)."""
        p = self.procs[ns]
        a = self.apps[p['app']]
        text = p['identifiers'] if a['distribution'] == 'ALL_INSTANCES' else a['identifiers']
        items = [x.strip() for x in text.split(',') if x.strip()]
        # aliases of the rules file expand in place, in declaration order (an alias may use a later one)
        for name, repl in self.xml_aliases.items():
            if name in items:
                pos = items.index(name)
                items[pos:pos + 1] = repl
        if '*' in items:
            return list(self.idents)
        out = []
        for x in items:
            if x in self.alias and self.alias[x] not in out:
                out.append(self.alias[x])
        return out


# ---------------------------------------------------------------------------------------------
# shared bookkeeping: requests of each sender, forced states published, hosts lost
# ---------------------------------------------------------------------------------------------
class JobLedger:
    """Harness bookkeeping fed by the hooks; the property monitors read it."""

    def __init__(self, n):
        self.starts = {}      # (sender, namespec) -> target idx of the last start request
        self.start_step = {}  # (sender, namespec) -> world step of the request
        self.stops = {}       # (sender, namespec, target) -> step
        self.forced = {}      # (sender, namespec) -> (state, reason)
        self.order = []       # chronological [(kind, sender, namespec, target)]
        self.lost = set()     # (sender, target idx): sender sees target FAILED / STOPPED / ISOLATED
        self.marks = set()    # ('invalidated', sender, target): the sender's state machine acknowledged the loss

    def key(self, c):
        return ('ledger', tuple(sorted(self.starts.items())), tuple(sorted(self.stops)),
                tuple(sorted((k, v) for k, v in self.forced.items())), tuple(self.order[-12:]), len(self.order),
                tuple(sorted(self.lost)), tuple(sorted(self.marks)))

    def on_emit(self, w, rec):
        if rec['req'] == 'START_PROCESS':
            ns = rec['args'][0]
            self.starts[(rec['src'], ns)] = rec['dst']
            self.start_step[(rec['src'], ns)] = rec['step']
            self.forced.pop((rec['src'], ns), None)
            self.order.append(('start', rec['src'], ns, rec['dst']))
        elif rec['req'] == 'STOP_PROCESS':
            ns = rec['args'][0]
            self.stops[(rec['src'], ns, rec['dst'])] = rec['step']
            self.order.append(('stop', rec['src'], ns, rec['dst']))

    def on_publish(self, w, src, dst, body):
        # PublicationHeaders.PROCESS == 1
        if body[0] == 1 and isinstance(body[1], dict) and body[1].get('forced'):
            ns = f"{body[1]['group']}:{body[1]['name']}"
            self.forced[(src, ns)] = (int(body[1]['state']), body[1].get('spawnerr', ''))

    def on_instance_state(self, w, o, peer_ident, old, new):
        p = w.idx_of[peer_ident]
        if new in ('STOPPED', 'ISOLATED', 'FAILED'):
            self.lost.add((o, p))
            if old == 'FAILED':
                self.marks.add(('invalidated', o, p))
        elif new == 'RUNNING':
            self.lost.discard((o, p))
            self.marks.discard(('invalidated', o, p))


def ledger(w):
    return next(m for m in w.monitors if isinstance(m, JobLedger))


def gt_state(w, idx, ns):
    s = w.sups[idx]
    if not s.alive:
        return None
    try:
        return s.proc(ns).state
    except KeyError:
        return None


# ---------------------------------------------------------------------------------------------
# C03: start sequences
# ---------------------------------------------------------------------------------------------
class StartOrderMonitor:
    def __init__(self, rv, auto_jobs):
        self.rv = rv
        self.auto = auto_jobs   # the explored jobs are automatic (DISTRIBUTION / restart_sequence): whole plan
        self.failed_required = {}   # (sender, app) -> namespec whose start failed (ABORT / STOP)
        self.completed = set()      # (sender, namespec, request step): the sender saw the start complete

    def key(self, c):
        return ('c03', tuple(sorted(self.failed_required.items())), tuple(sorted(self.completed)))

    def in_progress(self, w, sender, q):
        """q was requested by the sender and its start is still in progress in ground truth (not given up)."""
        L = ledger(w)
        t = L.starts.get((sender, q))
        if t is None:
            return False
        if (sender, q) in L.forced:
            return False            # given up: a forced state was published
        if (sender, t) in L.lost or not w.sups[t].alive:
            return False            # host lost
        pv = process_view(w.sups[sender]).get(q)
        if pv is not None and pv['statename'] == 'FATAL':
            return False            # given up: the sender displays the forced FATAL (published right after)
        st = gt_state(w, t, q)
        if st in (PS.STARTING, PS.BACKOFF):
            return True
        if st == PS.RUNNING and self.rv.procs[q]['wait_exit']:
            return True
        if st in STOPPED_LIKE and w.start_behaviour.get((t, q)) == 'mute':
            return True             # requested, never acknowledged, not given up yet
        # request still in the channel or not yet executed
        if st in STOPPED_LIKE and self._request_in_flight(w, sender, t, q):
            return True
        return False

    @staticmethod
    def _request_in_flight(w, sender, t, q, skip_last=False):
        """skip_last: called from on_emit for the very target of the request being emitted (already queued)."""
        msgs = list(w.channels.get((sender, t), ()))
        for msg in (msgs[:-1] if skip_last else msgs):
            try:
                if msg[0].name == 'REQUEST' and msg[1][1][0] == 1 and msg[1][1][1][0] == q:
                    return True
            except (IndexError, TypeError, AttributeError):
                pass
        return False

    def on_emit(self, w, rec):
        if rec['req'] != 'START_PROCESS':
            return
        sender, p = rec['src'], rec['args'][0]
        rv = self.rv
        if p not in rv.procs:
            return
        info = rv.procs[p]
        app = rv.apps[info['app']]
        cause = rec['cause'][2] if rec['cause'] else None
        single = cause in ('start_process', 'restart_process', 'start_args', 'start_any_process')
        job_kind = getattr(w, 'job_kind', 'auto' if self.auto else 'application')
        if single or job_kind in ('process', 'repair'):
            return   # a process started on its own (user request, conciliation, running failure) has no sequence
        # sequence 0 is never started automatically
        if info['start_sequence'] == 0:
            w.violations.append({'clause': 'sequence-0-process-started', 'signature': 'C03:seq0-process',
                                 'sender': sender, 'process': p, 'cause': cause})
            return
        if job_kind == 'auto' and app['start_sequence'] == 0:
            w.violations.append({'clause': 'sequence-0-application-started', 'signature': 'C03:seq0-application',
                                 'sender': sender, 'process': p})
            return
        # processes of the same application with a lower positive sequence are finished or given up
        for q in app['procs']:
            sq = rv.procs[q]['start_sequence']
            if 0 < sq < info['start_sequence'] and self.in_progress(w, sender, q):
                w.violations.append({'clause': 'lower-sequence-still-starting', 'signature': 'C03:process-order',
                                     'sender': sender, 'process': p, 'sequence': info['start_sequence'],
                                     'blocking': q, 'blocking_sequence': sq,
                                     'blocking_state': str(gt_state(w, ledger(w).starts[(sender, q)], q))})
                return
        # applications with a lower positive sequence are done (whole-plan jobs only)
        if job_kind == 'auto':
            for bname, b in rv.apps.items():
                if 0 < b['start_sequence'] < app['start_sequence']:
                    for q in b['procs']:
                        if rv.procs[q]['start_sequence'] > 0 and self.in_progress(w, sender, q):
                            w.violations.append({'clause': 'lower-application-still-starting',
                                                 'signature': 'C03:application-order', 'sender': sender,
                                                 'process': p, 'blocking': q})
                            return
        # starting failure strategy (failures the sender knows at this very instant included)
        self.scan_failures(w, only_sender=sender)
        fr = self.failed_required.get((sender, info['app']))
        if fr is not None and fr != p:
            w.violations.append({'clause': 'start-after-required-failure',
                                 'signature': f'C03:failure-strategy:{rv.procs[fr]["starting_failure_strategy"]}',
                                 'sender': sender, 'process': p, 'failed': fr})

    def after_step(self, w, ev):
        self.scan_failures(w)

    def scan_failures(self, w, only_sender=None):
        """Record required processes whose start has failed, as soon as the sender can know it."""
        L = ledger(w)
        rv = self.rv
        for (sender, q), t in list(L.starts.items()):
            if only_sender is not None and sender != only_sender:
                continue
            info = rv.procs.get(q)
            if not info or not info['required'] or info['starting_failure_strategy'] not in ('ABORT', 'STOP'):
                continue
            if (sender, info['app']) in self.failed_required:
                continue
            s = w.sups[sender]
            if not s.alive:
                continue
            # failure known to the sender: it displays the process FATAL / unexpectedly EXITED after the request,
            # or it gave the start up (forced state), or it lost the target
            failed = False
            tag = (sender, q, L.start_step.get((sender, q)))
            pv = process_view(s).get(q)
            if pv and w.idents[t] in pv['identifiers'] and pv['statename'] == 'RUNNING' and not info['wait_exit']:
                self.completed.add(tag)     # a later crash is a running failure, not a starting failure
            if tag in self.completed:
                continue
            if (sender, q) in L.forced and L.forced[(sender, q)][0] == int(PS.FATAL):
                failed = True
            if (sender, t) in L.lost and ('invalidated', sender, t) in L.marks:
                failed = True   # the host was lost (and invalidated by the sender) while the start was pending
            if pv and not pv['identifiers'] and (pv['statename'] == 'FATAL' or
                                                 (pv['statename'] == 'EXITED' and not pv['expected_exit']
                                                  and info['wait_exit'])):
                st = gt_state(w, t, q)
                if st in (PS.FATAL, PS.EXITED) or (sender, t) in L.lost:
                    failed = True
                elif pv['statename'] == 'FATAL' and st in (PS.STARTING, PS.BACKOFF, PS.STOPPED):
                    failed = True   # the sender gave the start up (timeout): it displays the forced FATAL
            if failed:
                self.failed_required[(sender, info['app'])] = q
        # a required program that could not even be requested (no resource): the sender that has start requests of the
        # application in its ledger displays it FATAL with that reason (a forced state, no request was ever made)
        for sender in sorted({snd for (snd, _q) in L.starts}):
            if only_sender is not None and sender != only_sender:
                continue
            s = w.sups[sender]
            if not s.alive:
                continue
            view = None
            for q, info in rv.procs.items():
                if not info['required'] or info['starting_failure_strategy'] not in ('ABORT', 'STOP') \
                        or (sender, q) in L.starts or (sender, info['app']) in self.failed_required:
                    continue
                if not any(rv.procs[x]['app'] == info['app'] for (snd, x) in L.starts if snd == sender and x in rv.procs):
                    continue
                view = view or process_view(s)
                pv = view.get(q)
                if pv and pv['statename'] == 'FATAL' and not pv['identifiers'] \
                        and 'No resource' in (self.reason(s, q) or ''):
                    self.failed_required[(sender, info['app'])] = q

    @staticmethod
    def reason(s, ns):
        a, p = ns.split(':')
        try:
            return s.context.applications[a].processes[p].get_applicable_details()[1]
        except KeyError:
            return ''

    def job_reset(self, sender, app):
        self.failed_required.pop((sender, app), None)


# ---------------------------------------------------------------------------------------------
# C04: eligibility and load
# ---------------------------------------------------------------------------------------------
class EligibilityMonitor:
    def __init__(self, rv, node_of):
        self.rv = rv
        self.node_of = list(node_of)

    def key(self, c):
        return ('c04',)

    def pending_load(self, w, sender, node, exclude=None):
        """Lower bound of the load of the sender's unacknowledged starts on `node` (see DESIGN.md C04)."""
        L = ledger(w)
        tot = 0
        s = w.sups[sender]
        view = process_view(s)
        for (snd, q), t in L.starts.items():
            if snd != sender or q == exclude or self.node_of[t] != node:
                continue
            if (snd, q) in L.forced or (snd, t) in L.lost:
                continue
            pv = view.get(q)
            if pv is None or pv['identifiers']:
                continue    # already counted as running load by the sender
            st = gt_state(w, t, q)
            in_flight = StartOrderMonitor._request_in_flight(w, sender, t, q)
            same_step = L.start_step.get((snd, q)) == w.step
            event_in_flight = st == PS.STARTING and w.idents[t] not in pv['identifiers']
            if in_flight or same_step or event_in_flight:
                tot += self.rv.procs[q]['load'] if q in self.rv.procs else 0
        return tot

    def running_load(self, w, sender, node):
        s = w.sups[sender]
        tot = 0
        for ns, pv in process_view(s).items():
            load = self.rv.procs.get(ns, {}).get('load', 0)
            if pv['statename'] in ('STARTING', 'RUNNING', 'BACKOFF', 'STOPPING'):
                for ident in pv['identifiers']:
                    if self.node_of[w.idx_of[ident]] == node:
                        tot += load
        return tot

    def on_emit(self, w, rec):
        if rec['req'] != 'START_PROCESS':
            return
        sender, t, p = rec['src'], rec['dst'], rec['args'][0]
        s = w.sups[sender]
        rv = self.rv
        if p not in rv.procs:
            return
        tid = w.idents[t]
        seen = instance_states(s).get(tid)
        if seen != 'RUNNING':
            w.violations.append({'clause': 'target-not-running', 'signature': 'C04:target-not-RUNNING',
                                 'sender': sender, 'target': t, 'process': p, 'seen': seen})
        ts = w.sups[t]
        if ts.alive:
            try:
                proc = ts.proc(p)
                if proc.supvisors_config.program_config.disabled:
                    w.violations.append({'clause': 'program-disabled-on-target', 'signature': 'C04:disabled',
                                         'sender': sender, 'target': t, 'process': p})
            except KeyError:
                w.violations.append({'clause': 'program-unknown-on-target', 'signature': 'C04:unknown-program',
                                     'sender': sender, 'target': t, 'process': p})
        if tid not in rv.permitted(p):
            w.violations.append({'clause': 'target-not-permitted', 'signature': 'C04:not-permitted',
                                 'sender': sender, 'target': t, 'process': p, 'permitted': rv.permitted(p)})
        node = self.node_of[t]
        load = rv.procs[p]['load']
        running = self.running_load(w, sender, node)
        pending = self.pending_load(w, sender, node, exclude=p)
        if running + pending + load > 100:
            w.violations.append({'clause': 'node-overload', 'signature': 'C04:overload', 'sender': sender,
                                 'target': t, 'process': p, 'running_load': running, 'pending_load': pending,
                                 'load': load})
        # not requested again while running / being started by the same sender
        pv = process_view(s).get(p)
        L = ledger(w)
        if pv and pv['identifiers']:
            w.violations.append({'clause': 'already-running', 'signature': 'C04:already-running', 'sender': sender,
                                 'process': p, 'running_on': pv['identifiers']})
        prev = L.starts.get((sender, p))
        if prev is not None:
            # (the ledger is updated after the monitors of the same emission: prev is the previous request)
            st = gt_state(w, prev, p)
            still = (st in (PS.STARTING, PS.BACKOFF)
                     or StartOrderMonitor._request_in_flight(w, sender, prev, p, skip_last=(prev == t)))
            if still and (sender, p) not in L.forced and (sender, prev) not in L.lost:
                w.violations.append({'clause': 'already-being-started', 'signature': 'C04:double-start',
                                     'sender': sender, 'process': p, 'previous_target': prev, 'state': str(st)})

    def on_publish(self, w, src, dst, body):
        """'No resource available' must mean that no instance qualifies."""
        if body[0] != 1 or not isinstance(body[1], dict) or not body[1].get('forced'):
            return
        if body[1].get('spawnerr') != 'No resource available':
            return
        ns = f"{body[1]['group']}:{body[1]['name']}"
        rv = self.rv
        if ns not in rv.procs or rv.apps[rv.procs[ns]['app']]['distribution'] != 'ALL_INSTANCES':
            return
        if getattr(w, '_c04_seen_nores', None) == (w.step, src, ns):
            return
        w._c04_seen_nores = (w.step, src, ns)
        s = w.sups[src]
        states = instance_states(s)
        load = rv.procs[ns]['load']
        for ident in rv.permitted(ns):
            t = w.idx_of[ident]
            if getattr(w, 'local_strategy', False) and t != src:
                continue    # LOCAL: only the requesting instance is a candidate
            if states.get(ident) != 'RUNNING' or not w.sups[t].alive:
                continue
            try:
                proc = w.sups[t].proc(ns)
            except KeyError:
                continue
            if proc.supvisors_config.program_config.disabled:
                continue
            # the sender must know that the instance has the program (handshake done)
            node = self.node_of[t]
            # upper bound of what may be counted there: every start of the sender towards the node
            upper_pending = sum(rv.procs[q]['load'] for (snd, q), tt in ledger(w).starts.items()
                                if snd == src and q != ns and self.node_of[tt] == node and q in rv.procs)
            if self.running_load(w, src, node) + upper_pending + load <= 100:
                w.violations.append({'clause': 'no-resource-although-eligible', 'signature': 'C04:false-no-resource',
                                     'sender': src, 'process': ns, 'eligible': t})
                return


# ---------------------------------------------------------------------------------------------
# C09: stop sequences
# ---------------------------------------------------------------------------------------------
class StopOrderMonitor:
    def __init__(self, rv):
        self.rv = rv
        self.end_orders = {}    # idx -> number of restart/shutdown orders received by the Supervisor

    def key(self, c):
        return ('c09', tuple(sorted(self.end_orders.items())))

    def stop_given_up(self, w, sender, q, t):
        L = ledger(w)
        f = L.forced.get((sender, q))
        if f is not None and f[0] == int(PS.STOPPED):
            return True
        # the forced state is published right after the next requests of the same evaluation: the sender
        # already displays it (STOPPED although the copy still runs)
        pv = process_view(w.sups[sender]).get(q)
        return pv is not None and pv['statename'] == 'STOPPED'

    def on_emit(self, w, rec):
        if rec['req'] != 'STOP_PROCESS':
            return
        sender, t, p = rec['src'], rec['dst'], rec['args'][0]
        s = w.sups[sender]
        rv = self.rv
        cause = rec['cause'][2] if rec['cause'] else None
        pv = process_view(s).get(p)
        tid = w.idents[t]
        if pv is not None and tid not in pv['identifiers']:
            w.violations.append({'clause': 'stop-sent-where-not-running', 'signature': 'C09:stop-not-running',
                                 'sender': sender, 'target': t, 'process': p, 'listed': pv['identifiers']})
        if p not in rv.procs or cause in ('stop_process', 'restart_process'):
            return
        job_kind = getattr(w, 'job_kind', 'application')
        if job_kind in ('process', 'repair'):
            return
        info = rv.procs[p]
        app = rv.apps[info['app']]
        L = ledger(w)
        # no process of the same application with a higher stop_sequence still running or stopping
        for q in app['procs']:
            if rv.procs[q]['stop_sequence'] > info['stop_sequence']:
                for j in w.live():
                    st = gt_state(w, j, q)
                    if st in RUNNING_LIKE or st == PS.STOPPING:
                        if self.stop_given_up(w, sender, q, j) or (sender, j) in L.lost:
                            continue
                        # a copy the sender does not know about (not listed) is not its business
                        qv = process_view(s).get(q)
                        listed = qv is not None and (w.idents[j] in qv['identifiers'])
                        requested = (sender, q, j) in L.stops
                        if listed or requested:
                            w.violations.append({'clause': 'higher-stop-sequence-still-running',
                                                 'signature': 'C09:process-order', 'sender': sender, 'process': p,
                                                 'sequence': info['stop_sequence'], 'blocking': q,
                                                 'blocking_sequence': rv.procs[q]['stop_sequence'],
                                                 'blocking_state': str(st), 'on': j})
                            return
        # applications in decreasing stop_sequence order (restart / shutdown / stop of everything): only for the stops
        # of the ending phase itself (a stop / restart of one application requested before is not concerned)
        if job_kind == 'ending' and s.fsm.state.name in ('RESTARTING', 'SHUTTING_DOWN'):
            for bname, b in rv.apps.items():
                if b['stop_sequence'] > app['stop_sequence']:
                    for q in b['procs']:
                        for j in w.live():
                            st = gt_state(w, j, q)
                            if (st in RUNNING_LIKE or st == PS.STOPPING) and not self.stop_given_up(w, sender, q, j) \
                                    and (sender, j) not in L.lost:
                                qv = process_view(s).get(q)
                                if (qv is not None and w.idents[j] in qv['identifiers']) or (sender, q, j) in L.stops:
                                    w.violations.append({'clause': 'higher-application-still-running',
                                                         'signature': 'C09:application-order', 'sender': sender,
                                                         'process': p, 'blocking': q, 'on': j})
                                    return

    def on_rpc(self, w, rec):
        if rec['ns'] == 'supervisor' and rec['name'] in ('restart', 'shutdown'):
            t = rec['dst']
            if w.sups[t].supervisord.options.mood < 1:
                return   # refused by a Supervisor that is already ending (fault answered)
            self.end_orders[t] = self.end_orders.get(t, 0) + 1
            if self.end_orders[t] > 1:
                w.violations.append({'clause': 'final-order-twice', 'signature': f'C09:order-twice:{rec["name"]}',
                                     'target': t, 'sender': rec['src']})
            # only after the Master has finished stopping everything (or gave up on timeouts)
            sender = w.sups[rec['src']]
            m = master_of(sender)
            if m and w.sups[w.idx_of[m]].alive:
                ms = w.sups[w.idx_of[m]]
                if ms.rpc.get_supvisors_state()['fsm_statename'] in ('RESTARTING', 'SHUTTING_DOWN') and \
                        ms.stopper.in_progress() and w.idx_of[m] != rec['src']:
                    w.violations.append({'clause': 'final-order-before-master-done',
                                         'signature': f'C09:order-early:{rec["name"]}', 'target': t,
                                         'sender': rec['src'], 'master': w.idx_of[m]})
            # nothing managed may still be running or stopping on the Master's account
            for j in w.live():
                for ns, p in w.sups[j].procs():
                    if p.state in RUNNING_LIKE or p.state == PS.STOPPING:
                        L = ledger(w)
                        mi = w.idx_of[m] if m else None
                        if mi is None or not w.sups[mi].alive:
                            continue
                        if self.stop_given_up(w, mi, ns, j) or (mi, j) in L.lost:
                            continue
                        qv = process_view(w.sups[mi]).get(ns)
                        if qv is not None and w.idents[j] in qv['identifiers']:
                            w.violations.append({'clause': 'final-order-while-processes-run',
                                                 'signature': f'C09:order-while-running:{rec["name"]}',
                                                 'target': t, 'process': ns, 'on': j, 'state': str(p.state)})
                            return


# ---------------------------------------------------------------------------------------------
# the driver
# ---------------------------------------------------------------------------------------------
class Jobs(Driver):
    """cfg: n, node_of, options, apps (rules description), lack {idx: [namespec]}, disabled {idx: [namespec]},
    phase ('auto' | 'operation'), setup [events], triggers [events], job_kind, behaviours [proc actions],
    backoffs (max BACKOFF per process), mute [[idx, namespec, 'start'|'stop']], T, D, F, faults, K."""

    name = 'jobs'
    urgent_procs = True

    def __init__(self, prop, judge):
        self.prop = prop
        self.judge = set(judge)

    def scenario(self, cfg):
        apps = cfg['apps']
        n = cfg['n']
        groups = []
        for i in range(n):
            g = groups_of(apps, cfg.get('extra_groups'))
            for ns in cfg.get('lack', {}).get(str(i), cfg.get('lack', {}).get(i, [])):
                a, p = ns.split(':')
                g[a] = {k: v for k, v in g[a].items() if k != p}
            for ns in cfg.get('disabled', {}).get(str(i), cfg.get('disabled', {}).get(i, [])):
                a, p = ns.split(':')
                g[a][p] = dict(g[a][p], disabled=True)
            groups.append(g)
        options = {'synchro_options': 'LIST,TIMEOUT', 'synchro_timeout': '15'}
        options.update(cfg.get('options') or {})
        return make_scenario(n, config=options, rules=rules_xml(apps, aliases=cfg.get('aliases')), groups=groups,
                             node_of=cfg.get('node_of'), nicks=cfg.get('nicks'), set_order=cfg.get('set_order'))

    def monitors(self, w, cfg, rv):
        n = w.n
        opts = w.scenario['config']
        # the ledger comes last: the property monitors see the requests made *before* the one being emitted
        return [StartOrderMonitor(rv, cfg.get('job_kind', 'application') == 'auto'),
                EligibilityMonitor(rv, w.scenario['node_of']),
                StopOrderMonitor(rv),
                FsmGraphMonitor(n, '[supvisors_failure_strategy=SHUTDOWN]'
                                if opts.get('supvisors_failure_strategy') == 'SHUTDOWN' else ''),
                DetectionMonitor(n, int(opts['inactivity_ticks']), opts['auto_fence'] == 'true'),
                JobLedger(n)]

    def settle(self, w):
        for e in w.proc_events(('run', 'stopped')):
            w.apply(e)

    def build(self, cfg):
        sc = self.scenario(cfg)
        w = World(sc)
        rv = RulesView(cfg['apps'], w.idents, sc['nicks'], cfg.get('aliases'))
        w.job_kind = cfg.get('job_kind', 'application')
        w.local_strategy = any('LOCAL' in json.dumps(tr) for tr in cfg.get('triggers', []))
        for idx, ns, what in cfg.get('mute', []):
            (w.start_behaviour if what == 'start' else w.stop_behaviour)[(idx, ns)] = 'mute'
        w.monitors += self.monitors(w, cfg, rv)
        w.start_all()
        if cfg.get('phase', 'operation') == 'auto':
            # fair run up to the state just before the first instance enters DISTRIBUTION
            self._run_until_distribution(w)
            w = W.ACTIVE
        else:
            w.round_robin(cfg.get('warm', 7), settle=self.settle)
            for ev in cfg.get('setup', []):
                w.apply(tuple(_tup(ev)))
                w.drain()
                self.settle(w)
                w.drain()
            if cfg.get('setup'):
                w.round_robin(2, settle=self.settle)
        w.violations = []
        w.drain_observations()
        w.budget['F'] = cfg.get('F', 0)
        w.budget['trig'] = 0
        w.budget['Tmax'] = w.round + cfg['T']
        for m in w.monitors:
            if isinstance(m, JobLedger):
                m.__init__(w.n)
        return w

    @staticmethod
    def _run_until_distribution(w):
        for _ in range(400):
            blob = W.snapshot(w)
            ks = w.deliverable()
            if ks:
                w.apply(('deliver',) + ks[0])
            else:
                live = w.live()
                lo = min(w.abs_ticks[i] for i in live)
                i = min(i for i in live if w.abs_ticks[i] == lo)
                w.apply(('tick', i))
            if any(s.fsm.state.name in ('DISTRIBUTION', 'OPERATION') for s in w.sups if s.alive):
                W.restore(blob)   # becomes W.ACTIVE
                return
        raise RuntimeError('DISTRIBUTION never reached')

    def env_events(self, w, cfg):
        evs = []
        trig = cfg.get('triggers', [])
        k = w.budget['trig']
        if k < len(trig):
            nxt = tuple(_tup(trig[k]))
            evs.append(nxt)
            if not cfg.get('overlap', True) or k == 0:
                # the first request comes first; later ones may interleave with everything
                if k == 0:
                    return evs
        allowed = cfg.get('behaviours', ('run', 'stopped'))
        for e in w.proc_events(allowed):
            if e[3] == 'backoff' and w.sups[e[1]].proc(e[2]).backoff >= cfg.get('backoffs', 1):
                continue
            if e[3] == 'exit_bad' and cfg.get('crashes') is not None and w.budget.get('X', cfg['crashes']) <= 0:
                continue    # bounded number of process crashes (a crash / repair cycle needs no tick)
            if e[3] == 'retry' and 'giveup' in allowed and w.sups[e[1]].proc(e[2]).backoff >= cfg.get('backoffs', 1) \
                    and cfg.get('retry_after_last_backoff', True) is False:
                continue
            evs.append(e)
        evs += tick_menu(w, w.budget['Tmax'], cfg.get('drift', 1))
        halts = [('halt', i) for i in w.live() if w.sups[i].end_orders]
        evs += halts[:1]
        live = w.live()
        if w.budget['F'] > 0 and len(live) > 1:
            if 'crash' in cfg.get('faults', ()):
                evs += [('crash', i) for i in live if i in cfg.get('crashable', live)]
        for u in cfg.get('user_events', []):
            u = tuple(_tup(u))
            if u[0] == 'ustart':
                st = gt_state(w, u[1], u[2])
                if st in STOPPED_LIKE and w.budget.get('U', cfg.get('U', 1)) > 0:
                    evs.append(u)
            elif u[0] == 'ustop':
                st = gt_state(w, u[1], u[2])
                if st in RUNNING_LIKE and w.budget.get('U', cfg.get('U', 1)) > 0:
                    evs.append(u)
            elif u[0] in ('udisable', 'uenable'):
                # supvisors.disable / enable on a live instance whose program is stopped and in the other mode
                s_ = w.sups[u[1]]
                if s_.alive and w.budget.get('U', cfg.get('U', 1)) > 0 and gt_state(w, u[1], u[2]) in STOPPED_LIKE \
                        and bool(s_.proc(u[2]).supvisors_config.program_config.disabled) != (u[0] == 'udisable'):
                    evs.append(u)
        return evs

    def step_check(self, w, ev, obs, cfg):
        if ev[0] == 'crash':
            w.budget['F'] -= 1
        if ev[0] in ('ustart', 'ustop', 'udisable', 'uenable'):
            w.budget['U'] = w.budget.get('U', cfg.get('U', 1)) - 1
        if ev[0] == 'proc' and ev[3] == 'exit_bad' and cfg.get('crashes') is not None:
            w.budget['X'] = w.budget.get('X', cfg['crashes']) - 1
        trig = cfg.get('triggers', [])
        k = w.budget['trig']
        if k < len(trig) and tuple(_tup(trig[k])) == tuple(ev):
            w.budget['trig'] = k + 1
        viols = list(w.violations)
        w.violations = []
        out = []
        errs = internal_errors(obs)
        if 'C16' in self.judge:
            out += errs
        elif errs:
            return [dict(e, cut_only=True) for e in errs]
        for v in viols:
            prop = v['signature'].split(':', 1)[0]
            out.append(v if prop in self.judge else dict(v, cut_only=True))
        return out

    def observe(self, w, cfg):
        gt = tuple(tuple(sorted((ns, int(p.state)) for ns, p in s.procs())) if s.alive else 'DEAD' for s in w.sups)
        return (tuple(s[1] for s in w.summary()), gt)


def _tup(e):
    return tuple(_tup(x) if isinstance(x, list) else x for x in e)
